"""C15 -- header parameters are validated when producing and when consuming.

HeaderOK(h) (DESIGN.md A.3) is written from the RFC registries, not from the code's tables:
required present, every registered member of its declared JSON type, crit names present,
b64 accompanied by crit listing it, strict => no unregistered member.  The real ``check_header``
of the JWS, RFC 7797 and JWE registries is executed symbolically for an arbitrary JSON-object
header (any member names, any JSON values), including a caller-registered parameter of arbitrary
declared type / required flag, strict checking on and off.
"""
from pyvc.api import *
from joserfc.registry import HeaderParameter
from joserfc.rfc7515.registry import JWSRegistry
from joserfc.rfc7797.registry import JWSRegistry as B64Registry
from joserfc.rfc7516.registry import JWERegistry
from joserfc import jwe as _jwe  # registers the JWE algorithms   # noqa: F401
from joserfc import jws as _jws  # registers the JWS algorithms   # noqa: F401
from joserfc.errors import UnsupportedAlgorithmError

PROPERTY = "C15"
FUNCTIONS_UNDER_CONTRACT = [
    "joserfc.registry.is_str", "joserfc.registry.is_url", "joserfc.registry.is_int", "joserfc.registry.is_bool",
    "joserfc.registry.is_list_str", "joserfc.registry.is_jwk", "joserfc.registry.HeaderParameter.__init__",
    "joserfc.registry.check_supported_header", "joserfc.registry.validate_registry_header",
    "joserfc.registry.check_crit_header", "joserfc.rfc7515.registry.JWSRegistry.__init__",
    "joserfc.rfc7515.registry.JWSRegistry.check_header", "joserfc.rfc7797.registry.JWSRegistry.check_header",
    "joserfc.rfc7797.registry._safe_b64_header", "joserfc.rfc7516.registry.JWERegistry.__init__",
    "joserfc.rfc7516.registry.JWERegistry.check_header", "joserfc.rfc7516.registry.JWERegistry.get_alg",
]

# ---- the oracle: RFC 7515 s4.1, RFC 7516 s4.1, RFC 7797, RFC 7518 s4.6/4.7/4.8, ECDH-1PU draft ----
JWS_SPEC = {
    "alg": ("str", True), "jku": ("url", False), "jwk": ("jwk", False), "kid": ("str", False),
    "x5u": ("url", False), "x5c": ("list[str]", False), "x5t": ("str", False), "x5t#S256": ("str", False),
    "typ": ("str", False), "cty": ("str", False), "crit": ("list[str]", False),
}
JWE_SPEC = dict(JWS_SPEC)
JWE_SPEC.update({"enc": ("str", True), "zip": ("str", False)})
B64_SPEC = dict(JWS_SPEC)
B64_SPEC.update({"b64": ("bool", False)})

ECDH_SPEC = {"epk": ("jwk", True), "apu": ("str", False), "apv": ("str", False)}
GCMKW_SPEC = {"iv": ("str", True), "tag": ("str", True)}
PBES2_SPEC = {"p2s": ("str", True), "p2c": ("int", True)}
ALG_SPEC = {
    "RSA1_5": {}, "RSA-OAEP": {}, "RSA-OAEP-256": {}, "A128KW": {}, "A192KW": {}, "A256KW": {}, "dir": {},
    "ECDH-ES": ECDH_SPEC, "ECDH-ES+A128KW": ECDH_SPEC, "ECDH-ES+A192KW": ECDH_SPEC, "ECDH-ES+A256KW": ECDH_SPEC,
    "A128GCMKW": GCMKW_SPEC, "A192GCMKW": GCMKW_SPEC, "A256GCMKW": GCMKW_SPEC,
    "PBES2-HS256+A128KW": PBES2_SPEC, "PBES2-HS384+A192KW": PBES2_SPEC, "PBES2-HS512+A256KW": PBES2_SPEC,
}
TYPE_NAMES = ["str", "url", "int", "bool", "list[str]", "jwk"]


def type_ok(t, v):
    if t == "str":
        return isinstance(v, str)
    if t == "url":
        return is_url_str(v)
    if t == "int":
        return is_strict_int(v)
    if t == "bool":
        return isinstance(v, bool)
    if t == "list[str]":
        return is_list_of_str(v)
    if t == "jwk":
        return isinstance(v, dict)
    return False


def check_header_ok(h, spec, strict, required_enforced, tag):
    """The obligations HeaderOK(h) -- emitted after the real check_header accepted h."""
    for name, tr in spec.items():
        if tr[1] and required_enforced:
            check(name in h, tag + ": accepted => required parameter '" + name + "' present")
        check(implies(name in h, type_ok(tr[0], h.get(name))),
              tag + ": accepted => '" + name + "' has JSON type " + tr[0])
    if "crit" in h:
        crit = h["crit"]
        i = sym_int("i")
        if i >= 0 and i < len(crit):
            check(crit[i] in h, tag + ": accepted => every name listed in crit is present")
    if strict:
        e = sym_str("e")
        if e in h:
            check(e in spec, tag + ": accepted (strict) => no unregistered parameter")


def header_ok_formula(h, spec, strict, required_enforced):
    """HeaderOK(h) as one formula (for the completeness direction)."""
    parts = []
    for name, tr in spec.items():
        if tr[1] and required_enforced:
            parts.append(name in h)
        parts.append(implies(name in h, type_ok(tr[0], h.get(name))))
    crit = h.get("crit")
    parts.append(implies("crit" in h, is_list_of_str(crit) and forall_elems(crit, lambda c: c in h)))
    if strict:
        parts.append(forall_keys(h, lambda e: e in spec))
    return all_of(*parts)


# ---- JWS registry ------------------------------------------------------------------------------
def h_jws_check_header_sound():
    h = sym_dict("h")
    strict = sym_choice("strict", [True, False])
    reg = JWSRegistry(strict_check_header=strict)
    out = call(reg.check_header, h)
    if out.returned:
        cover("accepted")
        check_header_ok(h, JWS_SPEC, strict, True, "JWS")


def h_jws_check_header_complete():
    h = sym_dict("h")
    strict = sym_choice("strict", [True, False])
    reg = JWSRegistry(strict_check_header=strict)
    out = call(reg.check_header, h)
    if not out.returned:
        cover("rejected")
        check(not header_ok_formula(h, JWS_SPEC, strict, True), "JWS: a header satisfying HeaderOK is accepted")


def h_jws_custom_parameter():
    """A caller-registered parameter is accepted, type-checked, and enforced when required."""
    h = sym_dict("h")
    strict = sym_choice("strict", [True, False])
    t = sym_choice("t", TYPE_NAMES)
    req = sym_choice("req", [True, False])
    reg = JWSRegistry(header_registry={"x-custom": HeaderParameter("custom", t, req)}, strict_check_header=strict)
    spec = dict(JWS_SPEC)
    spec["x-custom"] = (t, req)
    out = call(reg.check_header, h)
    if out.returned:
        check_header_ok(h, spec, strict, True, "JWS+custom")
    else:
        check(not header_ok_formula(h, spec, strict, True), "JWS+custom: a header satisfying HeaderOK is accepted")


def h_jws_custom_parameter_redeclares_builtin():
    """A caller-registered parameter that re-declares a built-in name (kid as a required int) is the one enforced."""
    h = sym_dict("h")
    req = sym_choice("req", [True, False])
    reg = JWSRegistry(header_registry={"kid": HeaderParameter("Key ID", "int", req)})
    spec = dict(JWS_SPEC)
    spec["kid"] = ("int", req)
    out = call(reg.check_header, h)
    if out.returned:
        check_header_ok(h, spec, True, True, "JWS+redeclared kid")
    else:
        check(not header_ok_formula(h, spec, True, True), "JWS+redeclared kid: a header satisfying HeaderOK is accepted")


# ---- RFC 7797 registry (b64) -------------------------------------------------------------------
def h_b64_check_header():
    h = sym_dict("h")
    strict = sym_choice("strict", [True, False])
    reg = B64Registry(strict_check_header=strict)
    out = call(reg.check_header, h)
    if out.returned:
        check_header_ok(h, B64_SPEC, strict, True, "RFC7797")
        if "b64" in h:
            check("crit" in h and "b64" in h["crit"], "RFC7797: accepted => b64 is accompanied by a crit that lists it")
    else:
        ok = header_ok_formula(h, B64_SPEC, strict, True)
        b64ok = implies("b64" in h, "crit" in h and is_list_of_str(h.get("crit")) and "b64" in h.get("crit"))
        check(not all_of(ok, b64ok), "RFC7797: a header satisfying HeaderOK is accepted")


# ---- JWE registry ------------------------------------------------------------------------------
def jwe_spec_for(alg):
    spec = dict(JWE_SPEC)
    spec.update(ALG_SPEC[alg])
    return spec


def _jwe_check_header(family, strict):
    h = sym_dict("h")
    consuming = sym_choice("consuming", [True, False])
    alg = sym_choice("alg", family)
    assume(py_eq(h.get("alg"), alg))
    reg = JWERegistry(algorithms=list(ALG_SPEC.keys()), strict_check_header=strict)
    out = call(reg.check_header, h, consuming)
    spec = jwe_spec_for(alg)
    if out.returned:
        check_header_ok(h, JWE_SPEC, False, True, "JWE")
        # algorithm-specific parameters: typed always, required on consumption
        check_header_ok(h, ALG_SPEC[alg], False, consuming, "JWE " + alg)
        if strict:
            e = sym_str("e2")
            if e in h:
                check(e in spec, "JWE " + alg + ": accepted (strict) => no unregistered parameter")
    else:
        base = header_ok_formula(h, JWE_SPEC, False, True)
        more = header_ok_formula(h, ALG_SPEC[alg], False, consuming)
        stricts = implies(strict, forall_keys(h, lambda e: e in spec))
        check(not all_of(base, more, stricts), "JWE " + alg + ": a header satisfying HeaderOK is accepted")


def h_jwe_check_header_alg_not_allowed():
    """check_header never accepts a header whose alg the registry does not allow (it consults get_alg)."""
    h = sym_dict("h")
    reg = JWERegistry()
    out = call(reg.check_header, h)
    if out.returned:
        check("alg" in h and isinstance(h.get("alg"), str), "JWE: accepted => alg is a string")
        check(h.get("alg") in ["RSA-OAEP", "A128KW", "A256KW", "dir", "ECDH-ES", "ECDH-ES+A128KW", "ECDH-ES+A256KW"],
              "JWE default registry: accepted => alg is one of the recommended algorithms")


def _mk(name, family, strict):
    def h():
        _jwe_check_header(family, strict)
    h.__name__ = name
    h.__qualname__ = name
    return h


FAMILIES = {
    "plain": ["RSA1_5", "RSA-OAEP", "RSA-OAEP-256", "A128KW", "A192KW", "A256KW", "dir"],
    "ecdh": ["ECDH-ES", "ECDH-ES+A128KW", "ECDH-ES+A192KW", "ECDH-ES+A256KW"],
    "gcmkw": ["A128GCMKW", "A192GCMKW", "A256GCMKW"],
    "pbes2": ["PBES2-HS256+A128KW", "PBES2-HS384+A192KW", "PBES2-HS512+A256KW"],
}


def h_jwe_plain_strict():
    _jwe_check_header(FAMILIES["plain"], True)


def h_jwe_plain_lax():
    _jwe_check_header(FAMILIES["plain"], False)


def h_jwe_ecdh_strict():
    _jwe_check_header(FAMILIES["ecdh"], True)


def h_jwe_ecdh_lax():
    _jwe_check_header(FAMILIES["ecdh"], False)


def h_jwe_gcmkw_strict():
    _jwe_check_header(FAMILIES["gcmkw"], True)


def h_jwe_gcmkw_lax():
    _jwe_check_header(FAMILIES["gcmkw"], False)


def h_jwe_pbes2_strict():
    _jwe_check_header(FAMILIES["pbes2"], True)


def h_jwe_pbes2_lax():
    _jwe_check_header(FAMILIES["pbes2"], False)


HARNESSES = [h_jws_check_header_sound, h_jws_check_header_complete, h_jws_custom_parameter, h_jws_custom_parameter_redeclares_builtin, h_b64_check_header,
             h_jwe_plain_strict, h_jwe_plain_lax, h_jwe_ecdh_strict, h_jwe_ecdh_lax, h_jwe_gcmkw_strict,
             h_jwe_gcmkw_lax, h_jwe_pbes2_strict, h_jwe_pbes2_lax, h_jwe_check_header_alg_not_allowed]


# seeds for the native witness search (valid headers per family; mutated when an obligation is left undecided)
_SEED_JWS = {"h": {"alg": "HS256", "kid": "k1", "typ": "JWT", "crit": ["kid"]}}
for _h in (h_jws_check_header_sound, h_jws_check_header_complete, h_jws_custom_parameter, h_jws_custom_parameter_redeclares_builtin):
    _h.seeds = [_SEED_JWS, {"h": {"alg": "HS256", "x-custom": "v", "crit": ["x-custom"]}}, {"h": {"alg": "HS256"}, "req": 0},
                {"h": {"alg": "HS256", "kid": "text"}, "req": 1}, {"h": {"alg": "HS256", "kid": 7}, "req": 0}]
h_b64_check_header.seeds = [{"h": {"alg": "HS256", "b64": False, "crit": ["b64"]}}]
_JWE_SEEDS = [
    {"h": {"alg": "A128KW", "enc": "A128GCM", "kid": "k", "crit": ["kid"]}, "alg": 3},
    {"h": {"alg": "ECDH-ES", "enc": "A128GCM", "epk": {"kty": "EC"}, "apu": "QQ", "crit": ["apu"]}, "alg": 0},
    {"h": {"alg": "A128GCMKW", "enc": "A128GCM", "iv": "aaaa", "tag": "bbbb", "crit": ["iv"]}, "alg": 0, "consuming": 0},
    {"h": {"alg": "PBES2-HS256+A128KW", "enc": "A128GCM", "p2s": "aaaa", "p2c": 1000, "crit": ["p2c"]}, "alg": 0, "consuming": 0},
]
for _h in (h_jwe_plain_strict, h_jwe_plain_lax, h_jwe_ecdh_strict, h_jwe_ecdh_lax, h_jwe_gcmkw_strict, h_jwe_gcmkw_lax,
           h_jwe_pbes2_strict, h_jwe_pbes2_lax, h_jwe_check_header_alg_not_allowed):
    _h.seeds = _JWE_SEEDS
