"""C11 -- JWK import/export round-trips key material; RFC encodings; malformed JWKs refused."""
from pyvc.api import *
from joserfc.jwk import OctKey, RSAKey, ECKey, OKPKey, JWKRegistry
from joserfc.jws import JWSRegistry

PROPERTY = "C11"
EC_LEN = {"secp256r1": 32, "secp384r1": 48, "secp521r1": 66, "secp256k1": 32}
EC_NAME = {"secp256r1": "P-256", "secp384r1": "P-384", "secp521r1": "P-521", "secp256k1": "secp256k1"}
OKP_LEN = {"ed25519": 32, "ed448": 57, "x25519": 32, "x448": 56}
OKP_NAME = {"ed25519": "Ed25519", "ed448": "Ed448", "x25519": "X25519", "x448": "X448"}


def _dec(s):
    return spec_b64u_decode(s)


def h_oct_export_import():
    k = sym_bytes("k")
    key = OctKey.import_key(k)
    d = key.as_dict()
    check(py_eq(d.get("kty"), "oct") and py_eq(d.get("k"), spec_b64u(k).decode("ascii")), "oct: k = unpadded base64url of the key octets")
    back = call(OctKey.import_key, d)
    check(back.returned and py_eq(back.value.raw_value, k), "oct: importing the exported JWK yields the same key octets")


def h_ec_export_encoding():
    crv = sym_choice("crv", ["secp256r1", "secp384r1", "secp521r1", "secp256k1"])
    private = sym_choice("private", [True, False])
    key = make_key("ec", "K", private, crv)
    d = key.as_dict()
    check(py_eq(d.get("crv"), EC_NAME[crv]) and py_eq(d.get("kty"), "EC"), "EC: crv and kty members")
    for n in (["x", "y", "d"] if private else ["x", "y"]):
        check(in_b64u_alphabet(d[n].encode("ascii")), "EC: '" + n + "' is unpadded base64url")
        check(len(_dec(d[n])) == EC_LEN[crv], "EC: '" + n + "' has exactly the curve's coordinate length (leading zeros kept)")
    if not private:
        check("d" not in d, "EC: a public key has no d")


def h_ec_roundtrip():
    crv = sym_choice("crv", ["secp256r1", "secp521r1"])
    key = make_key("ec", "K", True, crv)
    d = key.as_dict(private=True)
    back = call(ECKey.import_key, d)
    check(back.returned, "EC: importing the exported private JWK returns")
    pubd = key.as_dict(private=False)
    pub = call(ECKey.import_key, pubd)
    check(pub.returned, "EC: importing the exported public JWK returns")
    if not (back.returned and pub.returned):
        return
    check(py_eq(back.value.as_dict(private=True), d), "EC: import then export returns the members that were given")
    check(not pub.value.is_private, "EC: the public JWK imports as a public key")
    alg = {"secp256r1": "ES256", "secp521r1": "ES512"}[crv]
    msg = sym_bytes("msg")
    sig = JWSRegistry.algorithms[alg].sign(msg, back.value)
    check(JWSRegistry.algorithms[alg].verify(msg, sig, key), "EC: a signature by the re-imported key verifies with the original")
    sig2 = JWSRegistry.algorithms[alg].sign(msg, key)
    check(JWSRegistry.algorithms[alg].verify(msg, sig2, pub.value), "EC: a signature by the original verifies with the re-imported public key")


def h_okp_export_import():
    crv = sym_choice("crv", ["ed25519", "ed448", "x25519", "x448"])
    private = sym_choice("private", [True, False])
    key = make_key("okp", "K", private, crv)
    d = key.as_dict()
    check(py_eq(d.get("crv"), OKP_NAME[crv]) and py_eq(d.get("kty"), "OKP"), "OKP: crv and kty members")
    check(len(_dec(d["x"])) == OKP_LEN[crv], "OKP: x has the curve's fixed length")
    if private:
        check(len(_dec(d["d"])) == OKP_LEN[crv], "OKP: d has the curve's fixed length")
    back = call(OKPKey.import_key, d)
    check(back.returned, "OKP: importing the exported JWK returns")
    if back.returned:
        check(py_eq(back.value.as_dict(), d), "OKP: import then export returns the members that were given")


def h_rsa_export_encoding():
    private = sym_choice("private", [True, False])
    key = make_key("rsa", "K", private)
    d = key.as_dict()
    names = ["n", "e"] + (["d", "p", "q", "dp", "dq", "qi"] if private else [])
    for n in names:
        b = _dec(d[n])
        check(in_b64u_alphabet(d[n].encode("ascii")), "RSA: '" + n + "' is unpadded base64url")
        check(len(b) > 0 and b[0] != 0, "RSA: '" + n + "' is the minimal big-endian encoding (no leading zero octet)")


def h_oct_import_refuses_malformed():
    d = sym_dict("d")
    out = call(OctKey.import_key, d)
    if out.returned:
        check("k" in d and isinstance(d["k"], str), "oct: accepted => required member k present and a string")
        check(spec_b64u_ok_text(d.get("k")), "oct: accepted => k decodes as base64url")
        check(implies("use" in d, d.get("use") in ["sig", "enc"]), "oct: accepted => use is sig or enc")
        if "key_ops" in d:
            check(is_list_of_str(d.get("key_ops")), "oct: accepted => key_ops is a list of strings")
        check(implies("kid" in d, isinstance(d.get("kid"), str)) and implies("alg" in d, isinstance(d.get("alg"), str)),
              "oct: accepted => kid and alg are strings")
        if "use" in d and "key_ops" in d and isinstance(d.get("key_ops"), list):
            allowed_ops = ["sign", "verify"] if d.get("use") == "sig" else ["encrypt", "decrypt", "wrapKey", "unwrapKey", "deriveKey", "deriveBits"]
            check(forall_elems(d["key_ops"], lambda o: o in allowed_ops), "oct: accepted => use and key_ops do not contradict each other")
        back = out.value.as_dict()
        check(forall_keys(d, lambda n: n in back and (n == "kty" or py_eq(back.get(n), d.get(n)))), "oct: import then export returns the members that were given")


def h_registry_dispatch():
    d = sym_dict("d")
    out = call(JWKRegistry.import_key, d)
    if out.returned:
        check(d.get("kty") in ["oct", "RSA", "EC", "OKP"], "import_key: accepted => kty names a supported key type")
        check(py_eq(out.value.key_type, d.get("kty")), "import_key: the key class matches kty")


HARNESSES = [h_oct_export_import, h_ec_export_encoding, h_ec_roundtrip, h_okp_export_import, h_rsa_export_encoding,
             h_oct_import_refuses_malformed]


def h_ec_import_refuses_missing_member():
    crv = sym_choice("crv", ["secp256r1", "secp384r1"])
    key = make_key("ec", "K", sym_choice("private", [True, False]), crv)
    d = key.as_dict()
    missing = sym_choice("missing", ["crv", "x", "y"])
    d2 = {}
    for n in d:
        if n != missing:
            d2[n] = d[n]
    out = call(ECKey.import_key, d2)
    check(out.raised(ValueError) or out.raised(KeyError) and False, "EC: a JWK without a required member (crv, x, y) is refused")


def h_rsa_import_refuses_partial_crt():
    """RSA private JWK with only some of p, q, dp, dq, qi is refused; none or all of them is accepted shape-wise."""
    d = {"kty": "RSA", "n": spec_b64u(spec_minbe_pos("n")).decode("ascii"), "e": spec_b64u(spec_minbe_pos("e")).decode("ascii"),
         "d": spec_b64u(spec_minbe_pos("dd")).decode("ascii")}
    present = []
    for n in ["p", "q", "dp", "dq", "qi"]:
        if sym_choice("has_" + n, [False, True]):
            d[n] = spec_b64u(spec_minbe_pos(n + "v")).decode("ascii")
            present.append(n)
    out = call(RSAKey.import_key, d)
    if len(present) != 0 and len(present) != 5:
        check(out.raised(ValueError), "RSA: partial CRT parameters are refused")


def spec_minbe_pos(name):
    n = sym_int(name)
    assume(n > 0)
    return spec_minbe(n)


HARNESSES += [h_ec_import_refuses_missing_member, h_rsa_import_refuses_partial_crt]


def h_export_is_a_fresh_copy():
    """as_dict returns the members that were given: extra parameters of one export, or edits of a returned dict, never
    show up in a later export (the key's own JWK view is not handed out)."""
    form = sym_choice("form", ["dict", "bytes"])
    k = sym_bytes("k")
    if form == "dict":
        key = OctKey.import_key({"kty": "oct", "k": spec_b64u(k).decode("ascii")})
    else:
        key = OctKey.import_key(k)
    private = sym_choice("private", [None, True, False])
    first = key.as_dict(private, kid=sym_str("kid"), use="enc")
    first["k"] = "edited-by-the-caller"
    second = key.as_dict(private)
    check("kid" not in second and "use" not in second, "parameters passed to one export do not leak into the next one")
    if private is not False:
        check(py_eq(second.get("k"), spec_b64u(k).decode("ascii")), "editing a returned dict does not change what the key exports later")
    check(py_eq(key.raw_value, k), "nor the key material")


HARNESSES.append(h_export_is_a_fresh_copy)
