"""C19 -- base64url and integer codecs are strict and lossless (harnesses = decisive obligations)."""
from pyvc.api import *
from joserfc import util
from joserfc.rfc7518 import util as util18

PROPERTY = "C19"


def h_b64_encode_spec():
    x = sym_bytes("x")
    out = call(util.urlsafe_b64encode, x)
    check(out.returned, "encode returns for every octet string")
    check(out.value == spec_b64u(x), "encode(x) = B64U(x) (RFC 4648 s5 without padding)")
    check(in_b64u_alphabet(out.value), "encoding contains only A-Z a-z 0-9 - _")


def h_b64_roundtrip():
    x = sym_bytes("x")
    e = util.urlsafe_b64encode(x)
    out = call(util.urlsafe_b64decode, e)
    check(out.returned, "decode(encode(x)) returns")
    check(out.value == x, "decode(encode(x)) = x")


def h_b64_decode_rejects_foreign():
    s = sym_bytes("s")
    assume(not only_b64_input_chars(s))
    out = call(util.urlsafe_b64decode, s)
    check(out.raised(ValueError), "byte outside the alphabet raises ValueError")


def h_b64_decode_rejects_plus_slash():
    s = sym_bytes("s")
    assume(b"+" in s or b"/" in s)
    out = call(util.urlsafe_b64decode, s)
    check(out.raised(ValueError), "'+' or '/' raises ValueError")


def h_b64_decode_rejects_length():
    s = sym_bytes("s")
    assume(in_b64u_alphabet(s) and len(s) % 4 == 1)
    out = call(util.urlsafe_b64decode, s)
    check(out.raised(ValueError), "impossible length (1 mod 4) raises ValueError")


def h_b64_decode_only_valueerror():
    s = sym_bytes("s")
    out = call(util.urlsafe_b64decode, s)
    check(out.raised_only(ValueError), "decode raises nothing but ValueError")


HARNESSES = [h_b64_encode_spec, h_b64_roundtrip, h_b64_decode_rejects_foreign, h_b64_decode_rejects_plus_slash,
             h_b64_decode_rejects_length, h_b64_decode_only_valueerror]


def h_int_to_base64_spec():
    n = sym_int("n")
    assume(n >= 0)
    out = call(util.int_to_base64, n)
    check(out.returned, "int_to_base64 returns for n >= 0")
    check(out.value == spec_b64u(spec_minbe(n)).decode("ascii"), "int_to_base64(n) = B64U(minimal big-endian octets of n)")


def h_int_to_base64_negative():
    n = sym_int("n")
    assume(n < 0)
    out = call(util.int_to_base64, n)
    check(out.raised(ValueError), "negative integers are refused with ValueError")


def h_int_base64_roundtrip():
    n = sym_int("n")
    assume(n > 0)
    s = util.int_to_base64(n)
    out = call(util.base64_to_int, s)
    check(out.returned, "base64_to_int(int_to_base64(n)) returns for n > 0")
    check(out.value == n, "base64_to_int(int_to_base64(n)) = n")


def h_base64_to_int_spec():
    x = sym_bytes("x")
    assume(len(x) > 0)
    s = spec_b64u(x).decode("ascii")
    out = call(util.base64_to_int, s)
    check(out.returned, "base64_to_int(B64U(x)) returns for non-empty x")
    check(out.value == spec_os2ip(x), "base64_to_int(B64U(x)) = OS2IP(x)")


def h_encode_int_spec():
    n = sym_int("n")
    bits = sym_int("bits")
    assume(bits >= 0)
    assume(n >= 0)
    assume(n < spec_pow256((bits + 7) // 8))
    out = call(util18.encode_int, n, bits)
    check(out.returned, "encode_int returns when 0 <= n < 256^ceil(bits/8)")
    check(out.value == spec_i2osp(n, (bits + 7) // 8), "encode_int(n, bits) = I2OSP(n, ceil(bits/8))")
    check(len(out.value) == (bits + 7) // 8, "encode_int output has exactly ceil(bits/8) octets")


def h_decode_int_spec():
    s = sym_bytes("s")
    assume(len(s) > 0)
    out = call(util18.decode_int, s)
    check(out.returned, "decode_int returns for non-empty octets")
    check(out.value == spec_os2ip(s), "decode_int(s) = OS2IP(s)")


def h_int_codec_roundtrip():
    n = sym_int("n")
    bits = sym_int("bits")
    assume(bits > 0)
    assume(n >= 0)
    assume(n < spec_pow256((bits + 7) // 8))
    e = util18.encode_int(n, bits)
    out = call(util18.decode_int, e)
    check(out.returned, "decode_int(encode_int(n, bits)) returns")
    check(out.value == n, "decode_int(encode_int(n, bits)) = n (leading zero octets included)")


def h_json_b64_roundtrip():
    d = sym_dict("d")
    e = util.json_b64encode(d)
    check(in_b64u_alphabet(e), "json_b64encode output is unpadded base64url")
    out = call(util.json_b64decode, e)
    check(out.returned, "json_b64decode(json_b64encode(d)) returns")
    check(same_json(out.value, d), "json_b64decode(json_b64encode(d)) = d")


HARNESSES += [h_int_to_base64_spec, h_int_to_base64_negative, h_int_base64_roundtrip, h_base64_to_int_spec,
              h_encode_int_spec, h_decode_int_spec, h_int_codec_roundtrip, h_json_b64_roundtrip]
