"""C19 -- base64url and integer codecs are strict and lossless (harnesses = decisive obligations)."""
from pyvc.api import *
from joserfc import util
from joserfc.rfc7518 import util as util18

PROPERTY = "C19"


def h_b64_encode_spec():
    x = sym_bytes("x")
    out = call(util.urlsafe_b64encode, x)
    check(out.returned, "encode returns for every octet string")
    check(out.value == spec_b64u(x), "encode(x) = B64U(x) (RFC 4648 s5 without padding)")
    check(in_b64u_alphabet(out.value), "encoding contains only A-Z a-z 0-9 - _")


def h_b64_roundtrip():
    x = sym_bytes("x")
    e = util.urlsafe_b64encode(x)
    out = call(util.urlsafe_b64decode, e)
    check(out.returned, "decode(encode(x)) returns")
    check(out.value == x, "decode(encode(x)) = x")


def h_b64_decode_rejects_foreign():
    s = sym_bytes("s")
    assume(not only_b64_input_chars(s))
    out = call(util.urlsafe_b64decode, s)
    check(out.raised(ValueError), "byte outside the alphabet raises ValueError")


def h_b64_decode_rejects_plus_slash():
    s = sym_bytes("s")
    assume(b"+" in s or b"/" in s)
    out = call(util.urlsafe_b64decode, s)
    check(out.raised(ValueError), "'+' or '/' raises ValueError")


def h_b64_decode_rejects_length():
    s = sym_bytes("s")
    assume(in_b64u_alphabet(s) and len(s) % 4 == 1)
    out = call(util.urlsafe_b64decode, s)
    check(out.raised(ValueError), "impossible length (1 mod 4) raises ValueError")


def h_b64_decode_only_valueerror():
    s = sym_bytes("s")
    out = call(util.urlsafe_b64decode, s)
    check(out.raised_only(ValueError), "decode raises nothing but ValueError")


HARNESSES = [h_b64_encode_spec, h_b64_roundtrip, h_b64_decode_rejects_foreign, h_b64_decode_rejects_plus_slash,
             h_b64_decode_rejects_length, h_b64_decode_only_valueerror]
