"""C16 -- untrusted tokens are rejected only with JoseError or ValueError.

Every consumer entry point is executed symbolically on a fully symbolic compact token (any octet string) and on
JSON-serialization objects of the documented shape with arbitrary member contents, with every operation's
exceptional outcomes enumerated by the interpreter (KeyError, TypeError, AttributeError, IndexError, ...).
"""
from pyvc.api import *
from props.jwslib import *
from joserfc import jws, jwt
from joserfc.rfc7797 import deserialize_compact as d7797_compact, deserialize_json as d7797_json
from joserfc.errors import JoseError

PROPERTY = "C16"
OK = (JoseError, ValueError)


def h_jws_compact_bytes():
    key, k = oct_key("k")
    token = sym_bytes("token")
    out = call(jws.deserialize_compact, token, key)
    check(out.raised_only(JoseError, ValueError), "jws.deserialize_compact(bytes): only JoseError / ValueError escape")


def h_jws_compact_header_json():
    """Well-formed three-segment token whose protected header is an arbitrary JSON value (not only objects)."""
    key, k = oct_key("k")
    hb = sym_bytes("hb")
    assume(spec_json_ok(hb))
    token = compact_token(hb, sym_bytes("p"), sym_bytes("s"))
    out = call(jws.deserialize_compact, token, key, ["HS256", "HS384", "HS512", "none"])
    check(out.raised_only(JoseError, ValueError), "jws.deserialize_compact(any JSON header): only JoseError / ValueError escape")


def h_jws_compact_str():
    key, k = oct_key("k")
    token = sym_str("token")
    out = call(jws.deserialize_compact, token, key)
    check(out.raised_only(JoseError, ValueError), "jws.deserialize_compact(str): only JoseError / ValueError escape")


def h_7797_compact_header_json():
    key, k = oct_key("k")
    hb = sym_bytes("hb")
    assume(spec_json_ok(hb))
    token = spec_b64u(hb) + b"." + sym_bytes("p") + b"." + spec_b64u(sym_bytes("s"))
    out = call(d7797_compact, token, key, None, ["HS256"])
    check(out.raised_only(JoseError, ValueError), "rfc7797.deserialize_compact: only JoseError / ValueError escape")


def h_jws_flattened_members():
    """Flattened JSON object of the documented shape: payload/protected/signature are str, header is a dict."""
    key, k = oct_key("k")
    value = {"payload": sym_str("payload"), "signature": sym_str("signature")}
    if sym_choice("with_protected", [True, False]):
        value["protected"] = sym_str("protected")
    if sym_choice("with_header", [False, True]):
        value["header"] = sym_dict("header")
    out = call(jws.deserialize_json, value, key, ["HS256", "HS512"])
    check(out.raised_only(JoseError, ValueError), "jws.deserialize_json(flattened): only JoseError / ValueError escape")


def h_jws_general_members():
    key, k = oct_key("k")
    sig = {"signature": sym_str("signature")}
    if sym_choice("with_protected", [True, False]):
        sig["protected"] = sym_str("protected")
    if sym_choice("with_header", [False, True]):
        sig["header"] = sym_dict("header")
    value = {"payload": sym_str("payload"), "signatures": [sig]}
    out = call(jws.deserialize_json, value, key, ["HS256", "HS512"])
    check(out.raised_only(JoseError, ValueError), "jws.deserialize_json(general): only JoseError / ValueError escape")


def h_jwt_decode_jws():
    key, k = oct_key("k")
    hb = sym_bytes("hb")
    assume(spec_json_ok(hb))
    token = compact_token(hb, sym_bytes("p"), sym_bytes("s"))
    out = call(jwt.decode, token, key, ["HS256"])
    check(out.raised_only(JoseError, ValueError), "jwt.decode (JWS transport): only JoseError / ValueError escape")


# ---- JWE side ------------------------------------------------------------------------------------
from joserfc import jwe
from joserfc.jwe import JWERegistry
from joserfc.jwk import OctKey
JWE_OCT_ALGS = ["dir", "A128KW", "A192KW", "A256KW", "A128GCMKW", "A256GCMKW", "PBES2-HS256+A128KW", "PBES2-HS512+A256KW",
                "A128GCM", "A256GCM", "A128CBC-HS256", "A256CBC-HS512", "DEF"]


JSON_ALGS = ["dir", "A128KW", "A128GCM"]


def _jwe_token(hb):
    return spec_b64u(hb) + b"." + spec_b64u(sym_bytes("ek")) + b"." + spec_b64u(sym_bytes("iv")) + b"." + spec_b64u(sym_bytes("ct")) + b"." + spec_b64u(sym_bytes("tag"))


def h_jwe_compact_bytes():
    key, k = oct_key("k")
    out = call(jwe.decrypt_compact, sym_bytes("token"), key, ["dir", "A128GCM"])
    check(out.raised_only(JoseError, ValueError), "jwe.decrypt_compact(bytes): only JoseError / ValueError escape")


def _jwe_header_json(name, algs):
    def h():
        key, k = oct_key("k")
        hb = sym_bytes("hb")
        assume(spec_json_ok(hb))
        out = call(jwe.decrypt_compact, _jwe_token(hb), key, algs)
        check(out.raised_only(JoseError, ValueError), "jwe.decrypt_compact(any JSON header, oct key; %s): only JoseError / ValueError escape" % name)
    h.__name__ = "h_jwe_compact_header_json_" + name
    h.__doc__ = "Five well-formed segments whose protected header is an arbitrary JSON value; algorithms %s" % (algs,)
    return h


h_jwe_compact_header_json_dir = _jwe_header_json("dir", ["dir", "A128GCM", "A128CBC-HS256", "DEF"])
h_jwe_compact_header_json_kw = _jwe_header_json("kw", ["A128KW", "A128GCM"])
h_jwe_compact_header_json_gcmkw = _jwe_header_json("gcmkw", ["A128GCMKW", "A128GCM"])
h_jwe_compact_header_json_pbes2 = _jwe_header_json("pbes2", ["PBES2-HS256+A128KW", "A128GCM"])


def h_jwe_compact_ecdh_header_json():
    """ECDH-ES family with an EC or OKP private key: epk (and apu/apv) are arbitrary JSON."""
    kind = sym_choice("key", ["ec", "okp"])
    key = make_key("ec", "E", True, "secp256r1") if kind == "ec" else make_key("okp", "E", True, "x25519")
    hb = sym_bytes("hb")
    assume(spec_json_ok(hb))
    out = call(jwe.decrypt_compact, _jwe_token(hb), key, ["ECDH-ES", "ECDH-ES+A128KW", "A128GCM"])
    check(out.raised_only(JoseError, ValueError), "jwe.decrypt_compact(any JSON header, EC/OKP key): only JoseError / ValueError escape")


def h_jwe_compact_rsa_header_json():
    key = make_key("rsa", "R", True)
    hb = sym_bytes("hb")
    assume(spec_json_ok(hb))
    out = call(jwe.decrypt_compact, _jwe_token(hb), key, ["RSA-OAEP", "A128GCM"])
    check(out.raised_only(JoseError, ValueError), "jwe.decrypt_compact(any JSON header, RSA key): only JoseError / ValueError escape")


def h_jwe_flattened_members():
    """Flattened JWE JSON object of the documented shape: str members, dict headers, optional members present or absent."""
    key, k = oct_key("k")
    value = {"protected": sym_str("protected"), "iv": sym_str("iv"), "ciphertext": sym_str("ciphertext"), "tag": sym_str("tag")}
    if sym_choice("with_ek", [True, False]):
        value["encrypted_key"] = sym_str("encrypted_key")
    if sym_choice("with_unprotected", [False, True]):
        value["unprotected"] = sym_dict("unprotected")
    if sym_choice("with_header", [False, True]):
        value["header"] = sym_dict("header")
    if sym_choice("with_aad", [False, True]):
        value["aad"] = sym_str("aad")
    out = call(jwe.decrypt_json, value, key, JSON_ALGS)
    check(out.raised_only(JoseError, ValueError), "jwe.decrypt_json(flattened): only JoseError / ValueError escape")


def h_jwe_general_members():
    key, k = oct_key("k")
    rcp = {}
    if sym_choice("with_ek", [True, False]):
        rcp["encrypted_key"] = sym_str("encrypted_key")
    if sym_choice("with_header", [False, True]):
        rcp["header"] = sym_dict("header")
    value = {"protected": sym_str("protected"), "iv": sym_str("iv"), "ciphertext": sym_str("ciphertext"), "tag": sym_str("tag"), "recipients": [rcp]}
    if sym_choice("with_unprotected", [False, True]):
        value["unprotected"] = sym_dict("unprotected")
    out = call(jwe.decrypt_json, value, key, JSON_ALGS)
    check(out.raised_only(JoseError, ValueError), "jwe.decrypt_json(general): only JoseError / ValueError escape")


def h_jwt_decode_jwe():
    key, k = oct_key("k")
    hb = sym_bytes("hb")
    assume(spec_json_ok(hb))
    out = call(jwt.decode, _jwe_token(hb), key, ["dir", "A128GCM", "DEF"], JWERegistry())
    check(out.raised_only(JoseError, ValueError), "jwt.decode (JWE transport): only JoseError / ValueError escape")


JWE_HARNESSES = [h_jwe_compact_bytes, h_jwe_compact_header_json_dir, h_jwe_compact_header_json_kw, h_jwe_compact_header_json_gcmkw,
                 h_jwe_compact_header_json_pbes2, h_jwe_compact_ecdh_header_json, h_jwe_compact_rsa_header_json,
                 h_jwe_flattened_members, h_jwe_general_members, h_jwt_decode_jwe]
HARNESSES = [h_jws_compact_bytes, h_jws_compact_header_json, h_jws_compact_str, h_7797_compact_header_json,
             h_jws_flattened_members, h_jws_general_members, h_jwt_decode_jws]
HARNESSES += JWE_HARNESSES
