"""C16 -- untrusted tokens are rejected only with JoseError or ValueError.

Every consumer entry point is executed symbolically on a fully symbolic compact token (any octet string) and on
JSON-serialization objects of the documented shape with arbitrary member contents, with every operation's
exceptional outcomes enumerated by the interpreter (KeyError, TypeError, AttributeError, IndexError, ...).
"""
from pyvc.api import *
from props.jwslib import *
from joserfc import jws, jwt
from joserfc.rfc7797 import deserialize_compact as d7797_compact, deserialize_json as d7797_json
from joserfc.errors import JoseError

PROPERTY = "C16"
OK = (JoseError, ValueError)


def h_jws_compact_bytes():
    key, k = oct_key("k")
    token = sym_bytes("token")
    out = call(jws.deserialize_compact, token, key)
    check(out.raised_only(JoseError, ValueError), "jws.deserialize_compact(bytes): only JoseError / ValueError escape")


def h_jws_compact_header_json():
    """Well-formed three-segment token whose protected header is an arbitrary JSON value (not only objects)."""
    key, k = oct_key("k")
    hb = sym_bytes("hb")
    assume(spec_json_ok(hb))
    token = compact_token(hb, sym_bytes("p"), sym_bytes("s"))
    out = call(jws.deserialize_compact, token, key, ["HS256", "HS384", "HS512", "none"])
    check(out.raised_only(JoseError, ValueError), "jws.deserialize_compact(any JSON header): only JoseError / ValueError escape")


def h_jws_compact_str():
    key, k = oct_key("k")
    token = sym_str("token")
    out = call(jws.deserialize_compact, token, key)
    check(out.raised_only(JoseError, ValueError), "jws.deserialize_compact(str): only JoseError / ValueError escape")


def h_7797_compact_header_json():
    key, k = oct_key("k")
    hb = sym_bytes("hb")
    assume(spec_json_ok(hb))
    token = spec_b64u(hb) + b"." + sym_bytes("p") + b"." + spec_b64u(sym_bytes("s"))
    out = call(d7797_compact, token, key, None, ["HS256"])
    check(out.raised_only(JoseError, ValueError), "rfc7797.deserialize_compact: only JoseError / ValueError escape")


def h_jws_flattened_members():
    """Flattened JSON object of the documented shape: payload/protected/signature are str, header is a dict."""
    key, k = oct_key("k")
    value = {"payload": sym_str("payload"), "signature": sym_str("signature")}
    if sym_choice("with_protected", [True, False]):
        value["protected"] = sym_str("protected")
    if sym_choice("with_header", [False, True]):
        value["header"] = sym_dict("header")
    out = call(jws.deserialize_json, value, key, ["HS256", "HS512"])
    check(out.raised_only(JoseError, ValueError), "jws.deserialize_json(flattened): only JoseError / ValueError escape")


def h_jws_general_members():
    key, k = oct_key("k")
    sig = {"signature": sym_str("signature")}
    if sym_choice("with_protected", [True, False]):
        sig["protected"] = sym_str("protected")
    if sym_choice("with_header", [False, True]):
        sig["header"] = sym_dict("header")
    value = {"payload": sym_str("payload"), "signatures": [sig]}
    out = call(jws.deserialize_json, value, key, ["HS256", "HS512"])
    check(out.raised_only(JoseError, ValueError), "jws.deserialize_json(general): only JoseError / ValueError escape")


def h_jwt_decode_jws():
    key, k = oct_key("k")
    hb = sym_bytes("hb")
    assume(spec_json_ok(hb))
    token = compact_token(hb, sym_bytes("p"), sym_bytes("s"))
    out = call(jwt.decode, token, key, ["HS256"])
    check(out.raised_only(JoseError, ValueError), "jwt.decode (JWS transport): only JoseError / ValueError escape")


# ---- JWE side ------------------------------------------------------------------------------------
from joserfc import jwe
from joserfc.jwe import JWERegistry
from joserfc.jwk import OctKey
JWE_OCT_ALGS = ["dir", "A128KW", "A192KW", "A256KW", "A128GCMKW", "A256GCMKW", "PBES2-HS256+A128KW", "PBES2-HS512+A256KW",
                "A128GCM", "A256GCM", "A128CBC-HS256", "A256CBC-HS512", "DEF"]


JSON_ALGS = ["dir", "A128KW", "A128GCM"]


def _jwe_token(hb):
    return spec_b64u(hb) + b"." + spec_b64u(sym_bytes("ek")) + b"." + spec_b64u(sym_bytes("iv")) + b"." + spec_b64u(sym_bytes("ct")) + b"." + spec_b64u(sym_bytes("tag"))


def h_jwe_compact_bytes():
    key, k = oct_key("k")
    out = call(jwe.decrypt_compact, sym_bytes("token"), key, ["dir", "A128GCM"])
    check(out.raised_only(JoseError, ValueError), "jwe.decrypt_compact(bytes): only JoseError / ValueError escape")


def _jwe_header_json(name, algs):
    def h():
        key, k = oct_key("k")
        hb = sym_bytes("hb")
        assume(spec_json_ok(hb))
        out = call(jwe.decrypt_compact, _jwe_token(hb), key, algs)
        check(out.raised_only(JoseError, ValueError), "jwe.decrypt_compact(any JSON header, oct key; %s): only JoseError / ValueError escape" % name)
    h.__name__ = "h_jwe_compact_header_json_" + name
    h.__doc__ = "Five well-formed segments whose protected header is an arbitrary JSON value; algorithms %s" % (algs,)
    return h


h_jwe_compact_header_json_dir = _jwe_header_json("dir", ["dir", "A128GCM", "A128CBC-HS256", "DEF"])
h_jwe_compact_header_json_kw = _jwe_header_json("kw", ["A128KW", "A128GCM"])
h_jwe_compact_header_json_gcmkw = _jwe_header_json("gcmkw", ["A128GCMKW", "A128GCM"])
h_jwe_compact_header_json_pbes2 = _jwe_header_json("pbes2", ["PBES2-HS256+A128KW", "A128GCM"])


def _jwe_ecdh_header_json(name, kinds, algs):
    def h():
        kind = sym_choice("key", kinds)
        key = make_key("ec", "E", True, "secp256r1") if kind == "ec" else make_key("okp", "E", True, "x25519")
        hb = sym_bytes("hb")
        assume(spec_json_ok(hb))
        out = call(jwe.decrypt_compact, _jwe_token(hb), key, algs)
        check(out.raised_only(JoseError, ValueError), "jwe.decrypt_compact(any JSON header, EC/OKP key; %s): only JoseError / ValueError escape" % name)
    h.__name__ = "h_jwe_compact_ecdh_header_json_" + name
    h.__doc__ = "ECDH-ES family with a private %s key: epk (and apu/apv) are arbitrary JSON; algorithms %s" % (kinds, algs)
    return h


def _jwe_ecdh_epk_json(kind):
    def h():
        key = make_key("ec", "E", True, "secp256r1") if kind == "ec" else make_key("okp", "E", True, "x25519")
        header = {"alg": "ECDH-ES", "enc": "A128GCM", "epk": sym_json("epk")}
        if sym_choice("with_apu", [False, True]):
            header["apu"] = sym_json("apu")
        hb = spec_utf8(spec_jsonc(header))
        out = call(jwe.decrypt_compact, _jwe_token(hb), key, ["ECDH-ES", "A128GCM"])
        check(out.raised_only(JoseError, ValueError), "jwe.decrypt_compact(ECDH-ES header with epk/apu any JSON value, %s key): only JoseError / ValueError escape" % kind)
    h.__name__ = "h_jwe_compact_ecdh_epk_json_" + kind
    h.__doc__ = "ECDH-ES token whose epk (and apu) header members are arbitrary JSON values; private %s key" % kind
    return h


h_jwe_compact_ecdh_epk_json_ec = _jwe_ecdh_epk_json("ec")
h_jwe_compact_ecdh_epk_json_okp = _jwe_ecdh_epk_json("okp")
h_jwe_compact_ecdh_header_json_ec = _jwe_ecdh_header_json("ec", ["ec"], ["ECDH-ES", "A128GCM"])
h_jwe_compact_ecdh_header_json_okp = _jwe_ecdh_header_json("okp", ["okp"], ["ECDH-ES", "A128GCM"])
h_jwe_compact_ecdh_header_json_kw = _jwe_ecdh_header_json("kw", ["ec", "okp"], ["ECDH-ES", "ECDH-ES+A128KW", "A128GCM", "A128CBC-HS256"])


def h_jwe_compact_rsa_header_json():
    key = make_key("rsa", "R", True)
    hb = sym_bytes("hb")
    assume(spec_json_ok(hb))
    out = call(jwe.decrypt_compact, _jwe_token(hb), key, ["RSA-OAEP", "A128GCM"])
    check(out.raised_only(JoseError, ValueError), "jwe.decrypt_compact(any JSON header, RSA key): only JoseError / ValueError escape")


def _jwe_json_members(form, with_ek, extra):
    def h():
        key, k = oct_key("k")
        value = {"protected": sym_str("protected"), "iv": sym_str("iv"), "ciphertext": sym_str("ciphertext"), "tag": sym_str("tag")}
        holder = value
        if form == "general":
            holder = {}
            value["recipients"] = [holder]
        if with_ek:
            holder["encrypted_key"] = sym_str("encrypted_key")
        if extra == "header":
            holder["header"] = sym_dict("header")
        elif extra == "unprotected":
            value["unprotected"] = sym_dict("unprotected")
        elif extra == "aad":
            value["aad"] = sym_str("aad")
        out = call(jwe.decrypt_json, value, key, JSON_ALGS)
        check(out.raised_only(JoseError, ValueError), "jwe.decrypt_json(%s; encrypted_key %s; %s): only JoseError / ValueError escape"
              % (form, "present" if with_ek else "absent", extra))
    h.__name__ = "h_jwe_%s_members_%s_%s" % (form, "ek" if with_ek else "noek", extra)
    h.__doc__ = "JWE JSON object of the documented shape (%s): str members, dict headers, optional members present or absent" % form
    return h


JWE_JSON_HARNESSES = [_jwe_json_members(f, e, x) for f in ("flattened", "general") for e in (True, False) for x in ("plain", "header", "unprotected", "aad")
                      if not (x == "aad" and not e)]


def h_jwt_decode_jwe():
    key, k = oct_key("k")
    hb = sym_bytes("hb")
    assume(spec_json_ok(hb))
    out = call(jwt.decode, _jwe_token(hb), key, ["dir", "A128GCM", "DEF"], JWERegistry())
    check(out.raised_only(JoseError, ValueError), "jwt.decode (JWE transport): only JoseError / ValueError escape")


JWE_HARNESSES = [h_jwe_compact_bytes, h_jwe_compact_header_json_dir, h_jwe_compact_header_json_kw, h_jwe_compact_header_json_gcmkw,
                 h_jwe_compact_header_json_pbes2, h_jwe_compact_ecdh_epk_json_ec, h_jwe_compact_ecdh_epk_json_okp, h_jwe_compact_rsa_header_json,
                 h_jwt_decode_jwe] + JWE_JSON_HARNESSES
HARNESSES = [h_jws_compact_bytes, h_jws_compact_header_json, h_jws_compact_str, h_7797_compact_header_json,
             h_jws_flattened_members, h_jws_general_members, h_jwt_decode_jws]
def h_jws_any_key_kind():
    """A well-formed key of a type the token's algorithm does not take is still rejected with a library error only
    (compact and flattened JSON paths have separate gates)."""
    alg = sym_choice("alg", ["HS256", "RS256", "ES256", "EdDSA"])
    kind = sym_choice("key", ["oct", "rsa", "ec", "ed25519", "x25519"])
    if kind == "oct":
        key = oct_key("k")[0]
    elif kind == "rsa":
        key = make_key("rsa", "K", False)
    elif kind == "ec":
        key = make_key("ec", "K", False, "secp256r1")
    else:
        key = make_key("okp", "K", False, kind)
    hb = spec_utf8(spec_jsonc({"alg": alg}))
    p, sg = sym_bytes("p"), sym_bytes("s")
    out = call(jws.deserialize_compact, compact_token(hb, p, sg), key, ["HS256", "RS256", "ES256", "EdDSA"])
    check(out.raised_only(JoseError, ValueError), "jws.deserialize_compact(key of any kind): only JoseError / ValueError escape")
    value = {"payload": spec_b64u(p).decode("ascii"), "protected": spec_b64u(hb).decode("ascii"), "signature": spec_b64u(sg).decode("ascii")}
    out2 = call(jws.deserialize_json, value, key, ["HS256", "RS256", "ES256", "EdDSA"])
    check(out2.raised_only(JoseError, ValueError), "jws.deserialize_json(key of any kind): only JoseError / ValueError escape")


def h_key_set_kid_any_json():
    """Verification / decryption with a KEY SET: the token's kid header member is an arbitrary JSON value."""
    from joserfc.jwk import KeySet
    ks = KeySet([OctKey.import_key(sym_bytes("k1"), {"kid": "a"}), OctKey.import_key(sym_bytes("k2"), {"kid": "b"})])
    kid = sym_json("kid")
    which = sym_choice("api", ["jwe.decrypt_compact", "jws.deserialize_compact", "jwe.decrypt_json"])
    if which == "jws.deserialize_compact":
        hb = spec_utf8(spec_jsonc({"alg": "HS256", "kid": kid}))
        out = call(jws.deserialize_compact, compact_token(hb, sym_bytes("p"), sym_bytes("s")), ks, ["HS256"])
    elif which == "jwe.decrypt_compact":
        hb = spec_utf8(spec_jsonc({"alg": "dir", "enc": "A128GCM", "kid": kid}))
        out = call(jwe.decrypt_compact, _jwe_token(hb), ks, ["dir", "A128GCM"])
    else:
        hb = spec_utf8(spec_jsonc({"alg": "dir", "enc": "A128GCM"}))
        value = {"protected": spec_b64u(hb).decode("ascii"), "iv": sym_str("iv"), "ciphertext": sym_str("ciphertext"), "tag": sym_str("tag"),
                 "header": {"kid": kid}}
        out = call(jwe.decrypt_json, value, ks, ["dir", "A128GCM"])
    check(out.raised_only(JoseError, ValueError), "verification / decryption with a key set and a kid of any JSON type: only JoseError / ValueError escape")


HARNESSES.append(h_key_set_kid_any_json)
HARNESSES += JWE_HARNESSES
THOROUGH_HARNESSES = [h_jws_any_key_kind, h_jwe_compact_ecdh_header_json_ec, h_jwe_compact_ecdh_header_json_okp, h_jwe_compact_ecdh_header_json_kw]
