"""C16 -- untrusted tokens are rejected only with JoseError or ValueError.

Every consumer entry point is executed symbolically on a fully symbolic compact token (any octet string) and on
JSON-serialization objects of the documented shape with arbitrary member contents, with every operation's
exceptional outcomes enumerated by the interpreter (KeyError, TypeError, AttributeError, IndexError, ...).
"""
from pyvc.api import *
from props.jwslib import *
from joserfc import jws, jwt
from joserfc.rfc7797 import deserialize_compact as d7797_compact, deserialize_json as d7797_json
from joserfc.errors import JoseError

PROPERTY = "C16"
OK = (JoseError, ValueError)


def h_jws_compact_bytes():
    key, k = oct_key("k")
    token = sym_bytes("token")
    out = call(jws.deserialize_compact, token, key)
    check(out.raised_only(JoseError, ValueError), "jws.deserialize_compact(bytes): only JoseError / ValueError escape")


def h_jws_compact_header_json():
    """Well-formed three-segment token whose protected header is an arbitrary JSON value (not only objects)."""
    key, k = oct_key("k")
    hb = sym_bytes("hb")
    assume(spec_json_ok(hb))
    token = compact_token(hb, sym_bytes("p"), sym_bytes("s"))
    out = call(jws.deserialize_compact, token, key, ["HS256", "HS384", "HS512", "none"])
    check(out.raised_only(JoseError, ValueError), "jws.deserialize_compact(any JSON header): only JoseError / ValueError escape")


def h_jws_compact_str():
    key, k = oct_key("k")
    token = sym_str("token")
    out = call(jws.deserialize_compact, token, key)
    check(out.raised_only(JoseError, ValueError), "jws.deserialize_compact(str): only JoseError / ValueError escape")


def h_7797_compact_header_json():
    key, k = oct_key("k")
    hb = sym_bytes("hb")
    assume(spec_json_ok(hb))
    token = spec_b64u(hb) + b"." + sym_bytes("p") + b"." + spec_b64u(sym_bytes("s"))
    out = call(d7797_compact, token, key, None, ["HS256"])
    check(out.raised_only(JoseError, ValueError), "rfc7797.deserialize_compact: only JoseError / ValueError escape")


def h_jws_flattened_members():
    """Flattened JSON object of the documented shape: payload/protected/signature are str, header is a dict."""
    key, k = oct_key("k")
    value = {"payload": sym_str("payload"), "signature": sym_str("signature")}
    if sym_choice("with_protected", [True, False]):
        value["protected"] = sym_str("protected")
    if sym_choice("with_header", [False, True]):
        value["header"] = sym_dict("header")
    out = call(jws.deserialize_json, value, key, ["HS256", "HS512"])
    check(out.raised_only(JoseError, ValueError), "jws.deserialize_json(flattened): only JoseError / ValueError escape")


def h_jws_general_members():
    key, k = oct_key("k")
    sig = {"signature": sym_str("signature")}
    if sym_choice("with_protected", [True, False]):
        sig["protected"] = sym_str("protected")
    if sym_choice("with_header", [False, True]):
        sig["header"] = sym_dict("header")
    value = {"payload": sym_str("payload"), "signatures": [sig]}
    out = call(jws.deserialize_json, value, key, ["HS256", "HS512"])
    check(out.raised_only(JoseError, ValueError), "jws.deserialize_json(general): only JoseError / ValueError escape")


def h_jwt_decode_jws():
    key, k = oct_key("k")
    hb = sym_bytes("hb")
    assume(spec_json_ok(hb))
    token = compact_token(hb, sym_bytes("p"), sym_bytes("s"))
    out = call(jwt.decode, token, key, ["HS256"])
    check(out.raised_only(JoseError, ValueError), "jwt.decode (JWS transport): only JoseError / ValueError escape")


HARNESSES = [h_jws_compact_bytes, h_jws_compact_header_json, h_jws_compact_str, h_7797_compact_header_json,
             h_jws_flattened_members, h_jws_general_members, h_jwt_decode_jws]
