"""C06 -- operations succeed only with a key suited to the algorithm and operation."""
from pyvc.api import *
from props.jwslib import *
from props.jwelib import *
from joserfc import jws, jwe
from joserfc.jwk import OctKey, RSAKey, ECKey, OKPKey
from joserfc.jws import JWSRegistry
from joserfc.errors import JoseError

PROPERTY = "C06"
JWS_KTY = {"HS256": "oct", "HS384": "oct", "HS512": "oct", "RS256": "RSA", "RS384": "RSA", "RS512": "RSA", "PS256": "RSA",
           "PS384": "RSA", "PS512": "RSA", "ES256": "EC", "ES384": "EC", "ES512": "EC", "ES256K": "EC", "EdDSA": "OKP"}
ES_CURVE = {"ES256": "secp256r1", "ES384": "secp384r1", "ES512": "secp521r1", "ES256K": "secp256k1"}
ALL_JWS = list(JWS_KTY.keys())
KEY_OPS = [None, [], ["sign"], ["verify"], ["sign", "verify"], ["wrapKey", "unwrapKey"], ["deriveKey"]]
USES = [None, "sig", "enc"]


def _params():
    p = {}
    use = sym_choice("use", USES)
    ops = sym_choice("key_ops", KEY_OPS)
    if use is not None:
        p["use"] = use
    if ops is not None:
        p["key_ops"] = ops
    return p, use, ops


def _any_key(params):
    kind = sym_choice("key", ["oct", "rsa-priv", "rsa-pub", "ec256-priv", "ec256-pub", "ec384-priv", "ed25519-priv", "ed25519-pub", "x25519-priv"])
    if kind == "oct":
        key = OctKey.import_key(sym_bytes("k"), params)
    elif kind.startswith("rsa"):
        key = make_key("rsa", "K", kind.endswith("priv"), None, params)
    elif kind.startswith("ec256"):
        key = make_key("ec", "K", kind.endswith("priv"), "secp256r1", params)
    elif kind.startswith("ec384"):
        key = make_key("ec", "K", True, "secp384r1", params)
    elif kind.startswith("ed25519"):
        key = make_key("okp", "K", kind.endswith("priv"), "ed25519", params)
    else:
        key = make_key("okp", "K", True, "x25519", params)
    return key, kind


def _suited_sig(alg, kind, use, ops, op):
    kty = {"oct": "oct", "rsa": "RSA", "ec2": "EC", "ec3": "EC", "ed2": "OKP", "x25": "OKP"}[kind[:3]]
    if JWS_KTY[alg] != kty:
        return False
    if alg in ES_CURVE and ES_CURVE[alg] != {"ec256": "secp256r1", "ec384": "secp384r1"}[kind[:5]]:
        return False
    if alg == "EdDSA" and not kind.startswith("ed25519"):
        return False
    if use is not None and use != "sig":
        return False
    if ops is not None and op not in ops:
        return False
    if op == "sign" and kind.endswith("pub"):
        return False
    return True


def _run_sign(alg, key, kind, use, ops):
    out = call(jws.serialize_compact, {"alg": alg}, sym_bytes("p"), key, ALL_JWS)
    if out.returned:
        check(_suited_sig(alg, kind, use, ops, "sign"), "signing succeeded => key type/curve, use=sig, key_ops include sign, private material")


def _run_verify(alg, key, kind, use, ops):
    hb = spec_utf8(spec_jsonc({"alg": alg}))
    out = call(jws.deserialize_compact, compact_token(hb, sym_bytes("p"), sym_bytes("s")), key, ALL_JWS)
    if out.returned:
        check(_suited_sig(alg, kind, use, ops, "verify"), "verification succeeded => key type/curve, use=sig, key_ops include verify (never a MAC under an asymmetric key)")


def h_sign_key_type_matrix():
    alg = sym_choice("alg", ["HS256", "RS256", "PS384", "ES256", "ES384", "EdDSA"])
    key, kind = _any_key(None)
    _run_sign(alg, key, kind, None, None)


def h_verify_key_type_matrix():
    alg = sym_choice("alg", ["HS256", "RS256", "ES256", "ES384", "EdDSA"])
    key, kind = _any_key(None)
    _run_verify(alg, key, kind, None, None)


def _matching(params):
    m = sym_choice("pair", [("HS256", "oct"), ("ES256", "ec256-priv"), ("RS256", "rsa-priv")])
    if m[1] == "oct":
        key = OctKey.import_key(sym_bytes("k"), params)
    elif m[1] == "ec256-priv":
        key = make_key("ec", "K", True, "secp256r1", params)
    else:
        key = make_key("rsa", "K", True, None, params)
    return m[0], key, m[1]


def h_sign_use_and_key_ops():
    params, use, ops = _params()
    out0 = call(_matching, params)
    if not out0.returned:
        return       # use / key_ops contradict each other: refused at import (C11)
    alg, key, kind = out0.value
    _run_sign(alg, key, kind, use, ops)


def h_verify_use_and_key_ops():
    params, use, ops = _params()
    out0 = call(_matching, params)
    if not out0.returned:
        return
    alg, key, kind = out0.value
    _run_verify(alg, key, kind, use, ops)


def h_verify_json_key_type_matrix():
    """The flattened JSON path has its own copy of the key gates."""
    alg = sym_choice("alg", ["HS256", "RS256", "ES256", "EdDSA"])
    key, kind = _any_key(None)
    hb = spec_utf8(spec_jsonc({"alg": alg}))
    obj = {"payload": spec_b64u(sym_bytes("p")).decode("ascii"), "protected": spec_b64u(hb).decode("ascii"),
           "signature": spec_b64u(sym_bytes("s")).decode("ascii")}
    out = call(jws.deserialize_json, obj, key, ALL_JWS)
    if out.returned:
        check(_suited_sig(alg, kind, None, None, "verify"), "JSON verification succeeded => key type/curve suit the algorithm")


def h_verify_json_use_and_key_ops():
    params, use, ops = _params()
    out0 = call(_matching, params)
    if not out0.returned:
        return
    alg, key, kind = out0.value
    hb = spec_utf8(spec_jsonc({"alg": alg}))
    obj = {"payload": spec_b64u(sym_bytes("p")).decode("ascii"), "protected": spec_b64u(hb).decode("ascii"),
           "signature": spec_b64u(sym_bytes("s")).decode("ascii")}
    out = call(jws.deserialize_json, obj, key, ALL_JWS)
    if out.returned:
        check(_suited_sig(alg, kind, use, ops, "verify"), "JSON verification succeeded => use=sig and key_ops include verify")


def h_jwe_decrypt_use_and_key_ops():
    """Decryption side: a token made with an unrestricted key, decrypted with the same octets under declared use/key_ops."""
    a = sym_choice("alg", [("dir", 16, None), ("A128KW", 16, "unwrapKey"), ("A128GCMKW", 16, "unwrapKey"), ("PBES2-HS256+A128KW", 16, "deriveKey")])
    params, use, ops = _params()
    k = sym_bytes("k")
    assume(len(k) == a[1])
    t = jwe.encrypt_compact({"alg": a[0], "enc": "A128GCM"}, sym_bytes("p"), OctKey.import_key(k), [a[0], "A128GCM"])
    out0 = call(OctKey.import_key, k, params)
    if not out0.returned:
        return
    out = call(jwe.decrypt_compact, t, out0.value, [a[0], "A128GCM"])
    if out.returned:
        check(use is None or use == "enc", "JWE decryption succeeded => declared use is enc")
        if a[2] is not None:
            check(ops is None or a[2] in ops, "JWE decryption succeeded => declared key_ops include the operation")


def h_jwe_key_sizes_and_use():
    a = sym_choice("alg", [("dir", 16, "A128GCM", None), ("A128KW", 16, "A128GCM", "wrapKey"), ("A256KW", 32, "A128GCM", "wrapKey"),
                           ("A192GCMKW", 24, "A128GCM", "wrapKey"), ("PBES2-HS256+A128KW", None, "A128GCM", "deriveKey")])
    params, use, ops = _params()
    k = sym_bytes("k")
    out0 = call(OctKey.import_key, k, params)
    if not out0.returned:
        return
    out = call(jwe.encrypt_compact, {"alg": a[0], "enc": a[2]}, sym_bytes("p"), out0.value, [a[0], a[2]])
    if out.returned:
        if a[1] is not None:
            check(len(k) == a[1], "JWE encryption succeeded => the oct key has exactly the size the algorithm needs")
        check(use is None or use == "enc", "JWE encryption succeeded => declared use is enc")
        if a[3] is not None:
            check(ops is None or a[3] in ops, "JWE encryption succeeded => declared key_ops include the operation")


def h_rsa_encrypt_needs_2048():
    bits = sym_int("bits")
    assume(bits >= 512 and bits <= 8192)
    key = make_key("rsa", "R", False, None, None, bits)
    out = call(jwe.encrypt_compact, {"alg": "RSA-OAEP", "enc": "A128GCM"}, b"p", key)
    if out.returned:
        check(bits >= 2048, "RSA key encryption succeeded => the key is at least 2048 bits")


def h_pem_as_oct_warns():
    prefix = sym_choice("prefix", [b"-----BEGIN ", b"---- BEGIN ", b"ssh-rsa ", b"ssh-dss ", b"ssh-ed25519 ", b"ecdsa-sha2-"])
    rest = sym_bytes("rest")
    import warnings
    if is_native():
        with warnings.catch_warnings(record=True) as w:
            warnings.simplefilter("always")
            OctKey.import_key(prefix + rest)
        check(len(w) >= 1, "importing PEM/SSH-formatted key text as a symmetric secret is flagged with a warning")
    else:
        out = call(OctKey.import_key, prefix + rest)
        check(len(crypto_events(out, "warn")) >= 1, "importing PEM/SSH-formatted key text as a symmetric secret is flagged with a warning")


HARNESSES = [h_sign_key_type_matrix, h_verify_key_type_matrix, h_sign_use_and_key_ops, h_verify_use_and_key_ops, h_verify_json_key_type_matrix, h_verify_json_use_and_key_ops, h_jwe_key_sizes_and_use, h_jwe_decrypt_use_and_key_ops, h_rsa_encrypt_needs_2048, h_pem_as_oct_warns]


# ---- seeds for the native witness search: correctly signed tokens under every key of the matrix ----
_KINDS = ["oct", "rsa-priv", "rsa-pub", "ec256-priv", "ec256-pub", "ec384-priv", "ed25519-priv", "ed25519-pub", "x25519-priv"]


def _seed_sig(algs, paired):
    def gen(rnd):
        from pyvc import reference
        from pyvc.spec import ref_B64U
        import json as _json
        k = bytes(rnd.randrange(256) for _ in range(32))
        p = bytes(rnd.randrange(256) for _ in range(rnd.choice([0, 3])))
        d = {"k": k, "p": p, "use": rnd.randrange(len(USES)), "key_ops": rnd.randrange(len(KEY_OPS))}
        if paired:
            pi = rnd.randrange(3)
            d["pair"] = pi
            alg, kind = [("HS256", "oct"), ("ES256", "ec256-priv"), ("RS256", "rsa-priv")][pi]
        else:
            ai, ki = rnd.randrange(len(algs)), rnd.randrange(len(_KINDS))
            d["alg"], d["key"] = ai, ki
            alg, kind = algs[ai], _KINDS[ki]
        si = ref_B64U(_json.dumps({"alg": alg}, separators=(",", ":")).encode()) + b"." + ref_B64U(p)
        # a signature that is right for *some* reading of the key: the intended one, or the nearest wrong one
        tries = []
        if kind == "oct":
            tries.append(("HS256", k))
        elif kind.startswith("rsa"):
            tries.append((alg if alg[:2] in ("RS", "PS") else "RS256", reference.raw_key("rsa", "K", None, 2048)))
        elif kind.startswith("ec256"):
            tries.append(("ES256", reference.raw_key("ec", "K", "secp256r1", 2048)))
        elif kind.startswith("ec384"):
            tries.append(("ES384", reference.raw_key("ec", "K", "secp384r1", 2048)))
        elif kind.startswith("ed25519"):
            tries.append(("EdDSA", reference.raw_key("okp", "K", "ed25519", 2048)))
        s = b""
        for a_, rk in tries:
            try:
                s = reference.sign(a_, rk, si)
            except Exception:
                s = b""
        if alg == "HS256" and kind != "oct" and tries and rnd.random() < 0.8:
            # the classic confusion: a MAC keyed with the public encoding of the verifier's asymmetric key
            from cryptography.hazmat.primitives import serialization as _ser
            import hmac as _hmac
            rk = tries[0][1]
            pub = rk.public_key()
            enc = rnd.choice([(_ser.Encoding.PEM, _ser.PublicFormat.SubjectPublicKeyInfo), (_ser.Encoding.DER, _ser.PublicFormat.SubjectPublicKeyInfo)])
            s = _hmac.new(pub.public_bytes(enc[0], enc[1]), si, "sha256").digest()
        d["s"] = s
        return d
    return gen


h_verify_key_type_matrix.seed_fn = _seed_sig(["HS256", "RS256", "ES256", "ES384", "EdDSA"], False)
h_verify_json_key_type_matrix.seed_fn = _seed_sig(["HS256", "RS256", "ES256", "EdDSA"], False)
h_verify_use_and_key_ops.seed_fn = _seed_sig(None, True)
h_verify_json_use_and_key_ops.seed_fn = _seed_sig(None, True)
h_sign_use_and_key_ops.seed_fn = _seed_sig(None, True)


def _seed_jwe(rnd):
    return {"alg": rnd.randrange(5), "use": rnd.randrange(len(USES)), "key_ops": rnd.randrange(len(KEY_OPS)),
            "k": bytes(rnd.randrange(256) for _ in range(rnd.choice([8, 16, 24, 32, 48, 64]))), "p": b"x"}


h_jwe_key_sizes_and_use.seed_fn = _seed_jwe
h_jwe_decrypt_use_and_key_ops.seed_fn = lambda rnd: dict(_seed_jwe(rnd), alg=rnd.randrange(4), k=bytes(rnd.randrange(256) for _ in range(16)))


def h_jwe_json_decrypt_use():
    """The JSON decryption path attaches recipient keys in its own function; the use gate must be there too."""
    a = sym_choice("alg", ["dir", "A128KW"])
    use = sym_choice("use", USES)
    k = sym_bytes("k")
    assume(len(k) == 16)
    from joserfc.jwe import FlattenedJSONEncryption
    obj = FlattenedJSONEncryption({"alg": a, "enc": "A128GCM"}, sym_bytes("p"))
    obj.add_recipient(None, OctKey.import_key(k))
    data = jwe.encrypt_json(obj, None, [a, "A128GCM"])
    key = OctKey.import_key(k, {"use": use} if use is not None else None)
    out = call(jwe.decrypt_json, data, key, [a, "A128GCM"])
    if out.returned:
        check(use is None or use == "enc", "JWE JSON decryption succeeded => declared use is enc")


h_jwe_json_decrypt_use.seed_fn = lambda rnd: {"alg": rnd.randrange(2), "use": rnd.randrange(3), "k": bytes(rnd.randrange(256) for _ in range(16)), "p": b"x"}
HARNESSES.append(h_jwe_json_decrypt_use)


def h_jwe_json_encrypt_preset_recipient_use():
    """JSON encryption: a recipient key attached with add_recipient passes the same use gate as a guessed one."""
    use = sym_choice("use", USES)
    how = sym_choice("attach", ["add_recipient", "key-argument"])
    k = sym_bytes("k")
    assume(len(k) == 16)
    from joserfc.jwe import FlattenedJSONEncryption
    key = OctKey.import_key(k, {"use": use} if use is not None else None)
    obj = FlattenedJSONEncryption({"alg": "A128KW", "enc": "A128GCM"}, sym_bytes("p"))
    if how == "add_recipient":
        obj.add_recipient(None, key)
        out = call(jwe.encrypt_json, obj, None, ["A128KW", "A128GCM"])
    else:
        obj.add_recipient(None)
        out = call(jwe.encrypt_json, obj, key, ["A128KW", "A128GCM"])
    if out.returned:
        check(use is None or use == "enc", "JWE JSON encryption succeeded => the recipient key's declared use is enc")


h_jwe_json_encrypt_preset_recipient_use.seed_fn = lambda rnd: {"use": rnd.randrange(3), "attach": rnd.randrange(2), "k": bytes(rnd.randrange(256) for _ in range(16)), "p": b"x"}
HARNESSES.append(h_jwe_json_encrypt_preset_recipient_use)
