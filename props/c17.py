"""C17 -- decompression of JWE plaintext is bounded (never more than 256 000 octets, never silently truncated)."""
from pyvc.api import *
from props.jwelib import *
from joserfc.rfc7518.jwe_zips import DeflateZipModel, MAX_SIZE
from joserfc.jwe import JWERegistry
from joserfc.errors import ExceededSizeError
from joserfc import jwe

PROPERTY = "C17"
LIMIT = 256000


def _zip():
    return JWERegistry.algorithms["zip"]["DEF"]


def h_limit_constant():
    check(MAX_SIZE == LIMIT, "the decompression limit is 256 000 octets")


def h_compress_is_raw_deflate():
    p = sym_bytes("p")
    out = call(_zip().compress, p)
    check(out.returned, "compress returns")
    check(py_eq(out.value, spec_deflate_raw(p)), "compress emits a raw DEFLATE stream (no zlib header, no checksum)")


def h_roundtrip_within_limit():
    p = sym_bytes("p")
    assume(len(p) <= LIMIT)
    c = _zip().compress(p)
    out = call(_zip().decompress, c)
    check(out.returned, "a plaintext up to the limit decompresses")
    check(py_eq(out.value, p), "and round-trips exactly (never truncated)")


def h_exceeding_is_refused():
    p = sym_bytes("p")
    assume(len(p) > LIMIT)
    c = _zip().compress(p)
    out = call(_zip().decompress, c)
    check(out.raised(ExceededSizeError), "a stream expanding beyond the limit raises the exceeded-size error instead of returning data")


def h_never_more_than_limit():
    s = sym_bytes("s")
    out = call(_zip().decompress, s)
    if out.returned:
        check(len(out.value) <= LIMIT, "decompress never returns more than 256 000 octets, whatever the stream")


HARNESSES = [h_limit_constant, h_compress_is_raw_deflate, h_roundtrip_within_limit, h_exceeding_is_refused, h_never_more_than_limit]

import random as _random
_INCOMPRESSIBLE = _random.Random(7).randbytes(300000)       # stored blocks: zlib holds no pending output at the cut
h_exceeding_is_refused.seeds = [{"p": b"a" * 256001}, {"p": b"ab" * 128100}, {"p": bytes(range(256)) * 1001},
                                {"p": _INCOMPRESSIBLE}, {"p": _INCOMPRESSIBLE[:256001]}, {"p": b"a" * 256258}, {"p": b"a" * 256259}]
h_roundtrip_within_limit.seeds = [{"p": b"a" * 256000}, {"p": b""}, {"p": b"abc" * 1000}]
h_never_more_than_limit.seeds = [{"s": b"\x78\x9c\xed\xc1\x01\x0d\x00\x00\x00\xc2\xa0\xf7\x4f\x6d\x0e\x37\xa0\x00\x00\x00"}]
