"""C20 -- calls sharing keys, key sets and registries are independent.

Contract form of the statement (sequential half, decided here):
  FRAME      every public operation writes nothing to any object that existed before the call -- keys, key sets,
             registry instances, the built-in algorithm models, class-level tables, module globals -- except
             (a) the fill of a key's lazily built JWK view (`_dict_value`), whose content is a function of the
                 immutable key material only (CACHE obligation below), and
             (b) the documented lazy assignment of a thumbprint kid.
  CACHE      a key that went through an operation answers every observation (as_dict, kid-less view) exactly as a
             freshly imported key with the same material does: the lazy view is transparent.
  SEQUENCE   the outcome of a call made after another call on the same shared objects equals the outcome of the same
             call in isolation (verdict, recovered content).
  FRESH      per-call randomness is drawn inside the call and nothing random is stored in shared objects (C18 gives the
             use of the draws).
From FRAME + CACHE every call's behaviour is a function of its arguments and of shared state that no call modifies,
which is the sequential statement for any order of calls.  The multi-threaded half (line-granular schedules) is NOT
decided by contracts: see DESIGN.md -- it is argued from FRAME (no shared mutable state outside the two idempotent
lazy fills) under the assumption that attribute stores and dict item stores are atomic under the GIL.
"""
from pyvc.api import *
from props.jwslib import *
from joserfc import jws, jwe, jwt
from joserfc.jws import JWSRegistry
from joserfc.jwe import JWERegistry
from joserfc.jwk import OctKey, KeySet

PROPERTY = "C20"


def _unexpected(out):
    """shared writes other than the two lazy fills the statement allows"""
    return [w for w in shared_writes(out, True) if "_dict_value" not in w and "ensure_kid" not in w]


def _shared_key(kind):
    if kind == "oct":
        return OctKey.import_key(sym_bytes("k"))
    if kind == "oct-dict":
        return OctKey.import_key({"kty": "oct", "k": spec_b64u(sym_bytes("k")).decode("ascii"), "use": "sig"})
    if kind == "rsa":
        return make_key("rsa", "K", True)
    if kind == "ec":
        return make_key("ec", "K", True, "secp256r1")
    return make_key("okp", "K", True, "ed25519")


JWS_ALG = {"oct": "HS256", "oct-dict": "HS384", "rsa": "PS256", "ec": "ES256", "okp": "EdDSA"}


def h_frame_jws_sign_and_verify():
    kind = sym_choice("key", ["oct", "oct-dict", "rsa", "ec", "okp"])
    key = _shared_key(kind)
    reg = JWSRegistry(algorithms=[JWS_ALG[kind]])
    out = call(jws.serialize_compact, {"alg": JWS_ALG[kind]}, sym_bytes("p"), key, None, reg)
    check(len(_unexpected(out)) == 0, "jws.serialize_compact writes nothing to the shared key, registry, algorithm models or class tables")
    out2 = call(jws.deserialize_compact, sym_bytes("token"), key, None, reg)
    check(len(_unexpected(out2)) == 0, "jws.deserialize_compact (any token octets) writes nothing to shared objects")
    out3 = call(jws.serialize_json, {"protected": {"alg": JWS_ALG[kind]}}, sym_bytes("p2"), key, None, reg)
    check(len(_unexpected(out3)) == 0, "jws.serialize_json writes nothing to shared objects")
    if out3.returned:
        out4 = call(jws.deserialize_json, out3.value, key, None, reg)
        check(len(_unexpected(out4)) == 0, "jws.deserialize_json writes nothing to shared objects")


def h_frame_jwe_encrypt_and_decrypt():
    mode = sym_choice("mode", [("dir", "A128GCM", "oct16"), ("A128KW", "A128CBC-HS256", "oct16"), ("A128GCMKW", "A128GCM", "oct16"),
                               ("PBES2-HS256+A128KW", "A128GCM", "oct16"), ("ECDH-ES", "A128GCM", "ec"), ("ECDH-ES+A128KW", "A128GCM", "x25519"),
                               ("RSA-OAEP", "A128GCM", "rsa")])
    if mode[2] == "oct16":
        k = sym_bytes("k")
        assume(len(k) == 16)
        key = OctKey.import_key(k)
    elif mode[2] == "ec":
        key = make_key("ec", "E", True, "secp256r1")
    elif mode[2] == "x25519":
        key = make_key("okp", "E", True, "x25519")
    else:
        key = make_key("rsa", "R", True)
    reg = JWERegistry(algorithms=[mode[0], mode[1]])
    out = call(jwe.encrypt_compact, {"alg": mode[0], "enc": mode[1]}, sym_bytes("p"), key, None, reg)
    check(len(_unexpected(out)) == 0, "jwe.encrypt_compact writes nothing to the shared key, registry, algorithm models or class tables (CEK, IV, ephemeral key and salt live in the per-call objects)")
    if out.returned:
        out2 = call(jwe.decrypt_compact, out.value, key, None, reg)
        check(len(_unexpected(out2)) == 0, "jwe.decrypt_compact writes nothing to shared objects")
        check(out2.returned, "a token produced with shared objects decrypts with them")


def h_frame_jwt_with_key_set():
    k1 = OctKey.import_key(sym_bytes("k1"), {"kid": sym_str("kid1")})
    k2 = OctKey.import_key(sym_bytes("k2"))
    ks = KeySet([k1, k2])
    out = call(jwt.encode, {"alg": "HS256"}, {"sub": sym_str("sub")}, ks)
    check(len(_unexpected(out)) == 0, "jwt.encode with a key set writes nothing to the set, its keys or the registries (thumbprint kid apart)")
    if out.returned:
        out2 = call(jwt.decode, out.value, ks)
        check(len(_unexpected(out2)) == 0, "jwt.decode with a key set writes nothing to shared objects")


def h_lazy_key_view_is_transparent():
    """CACHE: after any operation the key answers observations exactly like a fresh key with the same material."""
    kb = sym_bytes("k")
    params = sym_choice("params", [None, {"use": "sig"}, {"kid": "k-1", "alg": "HS256"}])
    used = OctKey.import_key(kb, params)
    call(jws.serialize_compact, {"alg": "HS256"}, sym_bytes("p"), used)
    call(jws.deserialize_compact, sym_bytes("token"), used)
    fresh = OctKey.import_key(kb, params)
    check(same_json(used.as_dict(), fresh.as_dict()), "the JWK view of a key that was used equals the view of a freshly imported key")
    check(py_eq(used.raw_value, fresh.raw_value) and py_eq(used.kid, fresh.kid), "material and kid are unchanged by use")


def h_sequence_independence_jws():
    """SEQUENCE: a verification made after other calls on the same key and registry has the verdict and content it has alone."""
    kb = sym_bytes("k")
    shared = OctKey.import_key(kb)
    reg = JWSRegistry(algorithms=["HS256", "HS384"])
    hb = sym_bytes("hb")
    assume(spec_json_ok(hb))
    assume(isinstance(spec_json_parse(hb), dict))
    token = compact_token(hb, sym_bytes("p"), sym_bytes("s"))
    # history on the shared objects: a signature with another algorithm, a failed verification with another allow-list
    call(jws.serialize_compact, {"alg": "HS384"}, sym_bytes("p0"), shared, None, reg)
    call(jws.deserialize_compact, compact_token(b'{"alg":"HS512"}', sym_bytes("p1"), sym_bytes("s1")), shared, ["HS512"])
    after = call(jws.deserialize_compact, token, shared, None, reg)
    alone = call(jws.deserialize_compact, token, OctKey.import_key(kb), None, JWSRegistry(algorithms=["HS256", "HS384"]))
    check(iff(after.returned, alone.returned), "the verdict after a history of calls equals the verdict in isolation")
    if after.returned and alone.returned:
        check(py_eq(after.value.payload, alone.value.payload) and same_json(after.value.protected, alone.value.protected),
              "and so does the recovered content")


def h_fresh_randomness_per_call():
    """FRESH: two encryptions on the same shared objects each draw their own CEK/IV inside the call."""
    k = sym_bytes("k")
    assume(len(k) == 16)
    key = OctKey.import_key(k)
    reg = JWERegistry(algorithms=["A128KW", "A128GCM"])
    a = call(jwe.encrypt_compact, {"alg": "A128KW", "enc": "A128GCM"}, sym_bytes("p"), key, None, reg)
    b = call(jwe.encrypt_compact, {"alg": "A128KW", "enc": "A128GCM"}, sym_bytes("p"), key, None, reg)
    if a.returned and b.returned:
        check(len(random_draws(a)) >= 2 and len(random_draws(b)) >= 2, "each call draws its own CEK and IV")
        check(len(_unexpected(a)) == 0 and len(_unexpected(b)) == 0, "and stores neither in the shared objects")


HARNESSES = [h_frame_jws_sign_and_verify, h_frame_jwe_encrypt_and_decrypt, h_frame_jwt_with_key_set, h_lazy_key_view_is_transparent,
             h_sequence_independence_jws, h_fresh_randomness_per_call]


def h_registry_construction_is_local():
    """Building a registry with extra header parameters or an allow-list touches only the new instance."""
    from joserfc.registry import HeaderParameter
    which = sym_choice("registry", ["jws", "jwe"])
    extra = {"x-app": HeaderParameter("Application", "str")}
    if which == "jws":
        out = call(JWSRegistry, extra, ["HS256"])
    else:
        out = call(JWERegistry, extra, ["dir", "A128GCM"])
    check(out.returned, "a registry can be constructed with extra header parameters")
    check(len(shared_writes(out, True)) == 0, "constructing a registry writes nothing to the class-level tables, default registry or the caller's dict")
    if out.returned and which == "jws":
        again = JWSRegistry()
        check("x-app" not in again.header_registry, "a registry built later does not see the other instance's extra header parameters")


HARNESSES.append(h_registry_construction_is_local)
