"""C03 -- JWS sign-then-verify round trip for every algorithm and serialization.

Producer layout obligations (output = the RFC 7515 layout over spec functions, totality for admissible input)
plus the round trip through the real serializer and the real verifier; per-algorithm sign/verify round trips
on abstract keys (crypto correctness is the trusted axiom verify(sign(m)) under the matching public key).
"""
from pyvc.api import *
from props.jwslib import *
from joserfc import jws
from joserfc.jws import JWSRegistry
from joserfc.rfc7797 import serialize_compact as s7797_compact, deserialize_compact as d7797_compact
from joserfc.rfc7797 import serialize_json as s7797_json, deserialize_json as d7797_json
from joserfc.rfc7518.util import encode_int, decode_int

PROPERTY = "C03"
ALGS = ["HS256", "HS384", "HS512"]


def _header(alg):
    """An admissible protected header: alg plus optional registered members with arbitrary (non-ASCII allowed) values."""
    h = {"alg": alg}
    if sym_choice("with_kid", [False, True]):
        h["kid"] = sym_str("kid")
    if sym_choice("with_typ", [False, True]):
        h["typ"] = sym_str("typ")
    return h


def h_compact_roundtrip():
    alg = sym_choice("alg", ALGS)
    key, k = oct_key("k")
    h = _header(alg)
    expect = dict(h)
    p = sym_bytes("p")
    out = call(jws.serialize_compact, h, p, key, ALGS)
    check(out.returned, "compact: serialization returns for every admissible header, payload and oct key")
    hs = spec_b64u(spec_utf8(spec_jsonc(expect)))
    si = hs + b"." + spec_b64u(p)
    check(py_eq(out.value, (si + b"." + spec_b64u(spec_hmac(HS[alg], k, si))).decode("ascii")),
          "compact: output = B64U(UTF8(JSON(header))) '.' B64U(payload) '.' B64U(MAC(signing input))")
    back = call(jws.deserialize_compact, out.value, key, ALGS)
    check(back.returned, "compact: what was signed verifies")
    check(py_eq(back.value.payload, p), "compact: round trip yields exactly the original payload octets")
    check(same_json(back.value.protected, expect), "compact: round trip yields exactly the original header members")


def h_flattened_roundtrip():
    alg = sym_choice("alg", ["HS256", "HS512"])
    key, k = oct_key("k")
    placement = sym_choice("placement", ["protected", "header", "both"])
    p = sym_bytes("p")
    if placement == "protected":
        member = {"protected": {"alg": alg, "kid": sym_str("kid")}}
    elif placement == "header":
        member = {"header": {"alg": alg, "kid": sym_str("kid")}}
    else:
        member = {"protected": {"alg": alg}, "header": {"kid": sym_str("kid")}}
    out = call(jws.serialize_json, member, p, key, ["HS256", "HS512"])
    check(out.returned, "flattened: serialization returns")
    check(py_eq(out.value["payload"], spec_b64u(p).decode("ascii")), "flattened: payload member = B64U(payload)")
    back = call(jws.deserialize_json, out.value, key, ["HS256", "HS512"])
    check(back.returned, "flattened: what was signed verifies")
    check(py_eq(back.value.payload, p), "flattened: round trip yields the original payload")
    check(py_eq(back.value.headers().get("alg"), alg) and py_eq(back.value.headers().get("kid"), member.get("protected", member.get("header")).get("kid", member.get("header", {}).get("kid"))),
          "flattened: round trip yields the header members in place")


def h_general_roundtrip():
    key, k = oct_key("k")
    p = sym_bytes("p")
    members = [{"protected": {"alg": "HS256"}}, {"protected": {"alg": "HS512"}, "header": {"kid": sym_str("kid")}}]
    out = call(jws.serialize_json, members, p, key, ["HS256", "HS512"])
    check(out.returned, "general: serialization returns")
    back = call(jws.deserialize_json, out.value, key, ["HS256", "HS512"])
    check(back.returned, "general: what was signed verifies")
    check(py_eq(back.value.payload, p), "general: round trip yields the original payload")


def h_7797_compact_roundtrip():
    """b64=false: every payload octet string is serialized (attached when URL-safe text, detached otherwise) and
    the produced token verifies, attached or with the payload restored."""
    key, k = oct_key("k")
    p = sym_bytes("p")
    h = {"alg": "HS256", "b64": False, "crit": ["b64"]}
    out = call(s7797_compact, h, p, key, ["HS256"])
    check(out.returned, "7797 compact (b64=false): serialization returns for every payload octet string")
    hs = spec_b64u(spec_utf8(spec_jsonc(h)))
    sig = spec_b64u(spec_hmac("sha256", k, hs + b"." + p))
    if ascii_only(p) and py_urlsafe_match(p):
        check(py_eq(out.value, (hs + b"." + p + b"." + sig).decode("ascii")),
              "7797 compact: a URL-safe payload is attached: header '.' payload '.' B64U(MAC(header '.' payload))")
    elif ascii_only(p):
        check(py_eq(out.value, (hs + b".." + sig).decode("ascii")),
              "7797 compact: any other payload is detached: header '..' B64U(MAC(header '.' payload))")


def h_7797_compact_verify_attached():
    key, k = oct_key("k")
    p = sym_bytes("p")
    assume(ascii_only(p))
    assume(py_urlsafe_match(p))
    assume(b"." not in p)
    t = s7797_compact({"alg": "HS256", "b64": False, "crit": ["b64"]}, p, key, ["HS256"])
    back = call(d7797_compact, t, key, None, ["HS256"])
    check(back.returned and py_eq(back.value.payload, p), "7797 compact: an attached token verifies and yields the payload")


def h_7797_compact_verify_detached():
    key, k = oct_key("k")
    p = sym_bytes("p")
    assume(len(p) > 0)
    hs = spec_b64u(b'{"alg":"HS256","b64":false,"crit":["b64"]}')
    t = (hs + b".." + spec_b64u(spec_hmac("sha256", k, hs + b"." + p))).decode("ascii")
    back = call(d7797_compact, t, key, p, ["HS256"])
    check(back.returned and py_eq(back.value.payload, p), "7797 compact: a detached token verifies once the payload is restored")


def h_detach_content_compact():
    key, k = oct_key("k")
    p = sym_bytes("p")
    t = jws.serialize_compact({"alg": "HS256"}, p, key)
    d = jws.detach_content(t)
    hs = spec_b64u(b'{"alg":"HS256"}')
    si = hs + b"." + spec_b64u(p)
    check(py_eq(d, (hs + b".." + spec_b64u(spec_hmac("sha256", k, si))).decode("ascii")),
          "detach_content keeps header and signature segments and empties the payload segment")
    parts = d.split(".")
    restored = parts[0] + "." + spec_b64u(p).decode("ascii") + "." + parts[2]
    back = call(jws.deserialize_compact, restored, key)
    check(back.returned and py_eq(back.value.payload, p), "restoring the payload makes the detached JWS verify again")


# ---- per algorithm: sign then verify on a key of the algorithm's type ------------------------
def _sign_verify(alg_name, priv, pub):
    msg = sym_bytes("msg")
    alg = JWSRegistry.algorithms[alg_name]
    out = call(alg.sign, msg, priv)
    check(out.returned, alg_name + ".sign returns for a private key of its type")
    check(spec_verify(alg_name, pub, msg, out.value), alg_name + ": the signature produced is Valid per the RFC under the public key")
    v = call(alg.verify, msg, out.value, pub)
    check(v.returned and v.value is True, alg_name + ": verify(sign(msg)) with the corresponding public key succeeds")


def h_sign_verify_rsa():
    alg = sym_choice("alg", ["RS256", "RS384", "RS512", "PS256", "PS384", "PS512"])
    _sign_verify(alg, make_key("rsa", "K", True), make_key("rsa", "K", sym_choice("vpriv", [False, True])))


def h_sign_verify_ec():
    ac = sym_choice("alg", [("ES256", "secp256r1"), ("ES384", "secp384r1"), ("ES512", "secp521r1"), ("ES256K", "secp256k1")])
    _sign_verify(ac[0], make_key("ec", "K", True, ac[1]), make_key("ec", "K", False, ac[1]))


def h_sign_verify_eddsa():
    crv = sym_choice("crv", ["ed25519", "ed448"])
    _sign_verify("EdDSA", make_key("okp", "K", True, crv), make_key("okp", "K", False, crv))


def h_sign_verify_hmac():
    alg = sym_choice("alg", ALGS)
    key, k = oct_key("k")
    _sign_verify(alg, key, key)


def h_ecdsa_int_codec():
    """R and S are the fixed-length big-endian encodings for the curve, leading zero octets included."""
    bits = sym_choice("bits", [256, 384, 521])
    r = sym_int("r")
    assume(r >= 0 and r < spec_pow256((bits + 7) // 8))
    e = encode_int(r, bits)
    check(len(e) == (bits + 7) // 8, "encode_int gives exactly ceil(bits/8) octets")
    check(decode_int(e) == r, "decode_int(encode_int(r)) = r")


HARNESSES = [h_compact_roundtrip, h_flattened_roundtrip, h_general_roundtrip, h_7797_compact_roundtrip,
             h_7797_compact_verify_attached, h_7797_compact_verify_detached,
             h_detach_content_compact, h_sign_verify_rsa, h_sign_verify_ec, h_sign_verify_eddsa, h_sign_verify_hmac]


h_compact_roundtrip.seeds = [{"alg": 0, "k": b"secret", "with_kid": 1, "kid": "k\u00e9y-\u4e2d", "with_typ": 1, "typ": "J\u00fcT", "p": b"\xff\x00payload"}]
h_flattened_roundtrip.seeds = [{"alg": 0, "k": b"secret", "placement": 0, "kid": "k\u00e9y", "p": b"x"}, {"alg": 0, "k": b"secret", "placement": 2, "kid": "k\u00e9y", "p": b"x"}]
h_general_roundtrip.seeds = [{"k": b"secret", "kid": "k\u00e9y", "p": b"x"}]
h_7797_compact_roundtrip.seeds = [{"k": b"secret", "p": b"a.b"}, {"k": b"secret", "p": b"ab~c"}, {"k": b"s", "p": b"\xff"}, {"k": b"s", "p": b"a b"}]
h_7797_compact_verify_attached.seeds = [{"k": b"secret", "p": b"ab~c"}]
