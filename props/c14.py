"""C14 -- key sets resolve exactly the key named by kid."""
from pyvc.api import *
from props.jwslib import *
from joserfc import jws
from joserfc.jwk import OctKey, KeySet
from joserfc.errors import InvalidKeyIdError, JoseError

PROPERTY = "C14"


def _two_keys():
    kid1, kid2 = sym_str("kid1"), sym_str("kid2")
    assume(kid1 != kid2)
    b1, b2 = sym_bytes("k1"), sym_bytes("k2")
    k1 = OctKey.import_key(b1, {"kid": kid1})
    k2 = OctKey.import_key(b2, {"kid": kid2})
    return k1, k2, b1, b2, kid1, kid2


def h_get_by_kid():
    k1, k2, b1, b2, kid1, kid2 = _two_keys()
    ks = KeySet([k1, k2])
    kid = sym_str("kid")
    out = call(ks.get_by_kid, kid)
    if py_eq(kid, kid1):
        check(out.returned and out.value is k1, "get_by_kid returns exactly the key whose kid equals the requested one")
    elif py_eq(kid, kid2):
        check(out.returned and out.value is k2, "get_by_kid returns exactly the key whose kid equals the requested one (second key)")
    else:
        check(out.raised(InvalidKeyIdError), "an unknown kid raises the invalid-key-id error")
    none2 = call(ks.get_by_kid, None)
    check(none2.raised(InvalidKeyIdError), "no kid against a set holding several keys is refused")
    single = KeySet([k1])
    none1 = call(single.get_by_kid, None)
    check(none1.returned and none1.value is k1, "no kid is accepted only against a set holding a single key")


def h_every_key_has_kid():
    b1 = sym_bytes("k1")
    given = sym_choice("given", [False, True])
    k1 = OctKey.import_key(b1, {"kid": sym_str("kid1")} if given else None)
    ks = KeySet([k1])
    check(k1.kid is not None, "every key of a constructed key set has a kid")
    d = ks.as_dict()
    check(d["keys"][0].get("kid") is not None, "and the exported set carries it")
    back = call(KeySet.import_key_set, d)
    check(back.returned and len(back.value.keys) == 1, "importing the exported set returns a set of the same size")
    if back.returned:
        check(py_eq(back.value.keys[0].raw_value, b1) and py_eq(back.value.keys[0].kid, k1.kid), "import then export preserves every key (material and kid)")


def h_verify_uses_the_named_key():
    """A token whose header names kid1 verifies against the set only with the MAC of key 1."""
    k1, k2, b1, b2, kid1, kid2 = _two_keys()
    ks = KeySet([k1, k2])
    which = sym_choice("header_kid", ["kid1", "kid2", "other", "absent"])
    h = {"alg": "HS256"}
    if which == "kid1":
        h["kid"] = kid1
    elif which == "kid2":
        h["kid"] = kid2
    elif which == "other":
        other = sym_str("other")
        assume(other != kid1 and other != kid2 and other != "")
        h["kid"] = other
    hb = spec_utf8(spec_jsonc(h))
    p, s = sym_bytes("p"), sym_bytes("s")
    out = call(jws.deserialize_compact, compact_token(hb, p, s), ks)
    si = signing_input(hb, p)
    if which == "kid1":
        check(iff(out.returned, py_eq(s, spec_hmac("sha256", b1, si))), "kid names key 1: verified exactly with key 1")
    elif which == "kid2":
        check(iff(out.returned, py_eq(s, spec_hmac("sha256", b2, si))), "kid names key 2: verified exactly with key 2")
    elif which == "other":
        check(out.raised(InvalidKeyIdError), "a kid naming no key of the set fails with the invalid-key-id error")
    else:
        check(out.raised(InvalidKeyIdError), "a token without kid is not accepted against a set holding several keys")


def h_sign_records_the_chosen_kid():
    k1, k2, b1, b2, kid1, kid2 = _two_keys()
    ks = KeySet([k1, k2])
    p = sym_bytes("p")
    named = sym_choice("named", [False, True])
    h = {"alg": "HS256"}
    if named:
        assume(kid2 != "")      # an empty kid in the header is treated like an absent one (documented corner, left open)
        h["kid"] = kid2
    out = call(jws.serialize_compact, h, p, ks)
    check(out.returned, "signing with a key set returns")
    back = call(jws.deserialize_compact, out.value, ks)
    check(back.returned and py_eq(back.value.payload, p), "the produced token verifies against the same key set")
    if back.returned:
        kid = back.value.headers().get("kid")
        check(py_eq(kid, kid1) or py_eq(kid, kid2), "the kid of the chosen key is recorded in the produced token's header")
        if named:
            check(py_eq(kid, kid2), "signing with a kid uses exactly that key")


def h_callable_key():
    k1, k2, b1, b2, kid1, kid2 = _two_keys()
    ks = KeySet([k1, k2])
    h = {"alg": "HS256", "kid": kid1}
    hb = spec_utf8(spec_jsonc(h))
    p, s = sym_bytes("p"), sym_bytes("s")
    out = call(jws.deserialize_compact, compact_token(hb, p, s), lambda obj: ks)
    check(iff(out.returned, py_eq(s, spec_hmac("sha256", b1, signing_input(hb, p)))), "a key set returned by a callable resolves the key named by kid as well")


def h_import_export_preserves_every_key():
    k1, k2, b1, b2, kid1, kid2 = _two_keys()
    d = KeySet([k1, k2]).as_dict()
    back = call(KeySet.import_key_set, d)
    check(back.returned and len(back.value.keys) == 2, "importing an exported key set preserves every key (two keys of the same type)")
    if back.returned and len(back.value.keys) == 2:
        check(py_eq(back.value.keys[0].raw_value, b1) and py_eq(back.value.keys[1].raw_value, b2), "with their material")
        check(py_eq(back.value.keys[0].kid, kid1) and py_eq(back.value.keys[1].kid, kid2), "and their kids")


def h_7797_sign_records_the_chosen_kid():
    from joserfc.rfc7797 import serialize_compact as s7797, deserialize_compact as d7797
    k1, k2, b1, b2, kid1, kid2 = _two_keys()
    ks = KeySet([k1, k2])
    p = sym_choice("p", [b"hello", b"hello world.", b"\xff\x00"])     # attached, detached (text), detached (binary)
    out = call(s7797, {"alg": "HS256", "b64": False, "crit": ["b64"]}, p, ks, ["HS256"])
    check(out.returned, "RFC 7797 signing with a key set returns")
    back = call(d7797, out.value, ks, p, ["HS256"])
    check(back.returned, "RFC 7797: the token produced with a key picked from the set verifies against that set (its kid is recorded in the header)")


h_7797_sign_records_the_chosen_kid.seeds = [{"kid1": "a", "kid2": "b", "k1": b"one", "k2": b"two", "p": 0}, {"kid1": "a", "kid2": "b", "k1": b"one", "k2": b"two", "p": 1}]
h_import_export_preserves_every_key.seeds = [{"kid1": "a", "kid2": "b", "k1": b"one", "k2": b"two"}]
HARNESSES = [h_import_export_preserves_every_key, h_7797_sign_records_the_chosen_kid, h_get_by_kid, h_every_key_has_kid, h_verify_uses_the_named_key, h_sign_records_the_chosen_kid, h_callable_key]


def h_json_sign_records_the_chosen_kid():
    """JSON serializations (plain RFC 7515 and the RFC 7797 helper, b64 true/false/absent, member with or without an
    unprotected header): the kid of the key picked from the set is in the produced token, which then verifies against the set."""
    from joserfc.rfc7797 import serialize_json as s7797j, deserialize_json as d7797j
    k1, k2, b1, b2, kid1, kid2 = _two_keys()
    ks = KeySet([k1, k2])
    api = sym_choice("api", ["rfc7515", "rfc7797-b64-false", "rfc7797-plain"])
    member = {"protected": {"alg": "HS256"}}
    if api == "rfc7797-b64-false":
        member = {"protected": {"alg": "HS256", "b64": False, "crit": ["b64"]}}
    if sym_choice("with_header", [False, True]):
        member["header"] = {"cty": "x"}
    p = b"hello"
    if api == "rfc7515":
        out = call(jws.serialize_json, member, p, ks, ["HS256"])
    else:
        out = call(s7797j, member, p, ks, ["HS256"])
    check(out.returned, "JSON signing with a key set returns")
    if not out.returned:
        return
    hdr = out.value.get("header")
    check(isinstance(hdr, dict) and (py_eq(hdr.get("kid"), kid1) or py_eq(hdr.get("kid"), kid2)), "JSON: the produced token carries the kid of the key picked from the set")
    if api == "rfc7515":
        back = call(jws.deserialize_json, out.value, ks, ["HS256"])
    else:
        back = call(d7797j, out.value, ks, ["HS256"])
    check(back.returned, "JSON: the token produced with a key picked from the set verifies against that set")


h_json_sign_records_the_chosen_kid.seeds = [{"kid1": "a", "kid2": "b", "k1": b"one", "k2": b"two", "api": i, "with_header": j} for i in range(3) for j in range(2)]
HARNESSES.append(h_json_sign_records_the_chosen_kid)
