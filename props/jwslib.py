"""Shared builders for the JWS harnesses (harness language: runs symbolically and natively)."""
from pyvc.api import *
from joserfc import jws
from joserfc.jwk import OctKey, KeySet
from joserfc.errors import *

HS = {"HS256": "sha256", "HS384": "sha384", "HS512": "sha512"}


def oct_key(name, params=None):
    k = sym_bytes(name)
    return OctKey.import_key(k, params), k


def compact_token(hb, p, s):
    """BASE64URL(header octets) '.' BASE64URL(payload) '.' BASE64URL(signature)"""
    return spec_b64u(hb) + b"." + spec_b64u(p) + b"." + spec_b64u(s)


def signing_input(hb, p):
    return spec_b64u(hb) + b"." + spec_b64u(p)
