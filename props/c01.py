"""C01 -- JWS verification returns only authentically signed content."""
from pyvc.api import *
from props.jwslib import *
from joserfc import jws
from joserfc.errors import BadSignatureError, JoseError

PROPERTY = "C01"


def h_compact_hs_authentic():
    """Compact, HS256/384/512, arbitrary spelling of the protected header, arbitrary payload and signature
    octets: an object is returned only if the signature is the HMAC of the received signing input under
    the key; payload and header returned are the received ones."""
    alg = sym_choice("alg", ["HS256", "HS384", "HS512"])
    key, k = oct_key("k")
    hb = sym_bytes("hb")
    assume(spec_json_ok(hb))
    h = spec_json_parse(hb)
    assume(isinstance(h, dict))
    assume(py_eq(h.get("alg"), alg))
    p = sym_bytes("p")
    s = sym_bytes("s")
    token = compact_token(hb, p, s)
    out = call(jws.deserialize_compact, token, key, ["HS256", "HS384", "HS512"])
    good = py_eq(s, spec_hmac(HS[alg], k, signing_input(hb, p)))
    if out.returned:
        cover("returned")
        check(good, "returned => signature is the MAC of the received header and payload segments under the key")
        check(py_eq(out.value.payload, p), "returned => payload is the received (signed) payload")
        check(same_json(out.value.protected, h), "returned => header members are the received (signed) ones")
    else:
        cover("rejected")
        check(out.raised(Exception), "rejected with an error")
        if not good:
            check(True, "tampered or foreign signature is rejected")
    if not good:
        check(not out.returned, "any signature other than the MAC of the received segments is rejected")


HARNESSES = [h_compact_hs_authentic]


def _hs_header(name, alg):
    hb = sym_bytes(name)
    assume(spec_json_ok(hb))
    h = spec_json_parse(hb)
    assume(isinstance(h, dict))
    assume(py_eq(h.get("alg"), alg))
    return hb, h


def h_flattened_hs_authentic():
    """Flattened JSON serialization with a protected header (any spelling), optional unprotected header."""
    alg = sym_choice("alg", ["HS256", "HS512"])
    key, k = oct_key("k")
    hb, h = _hs_header("hb", alg)
    p = sym_bytes("p")
    s = sym_bytes("s")
    value = {"payload": spec_b64u(p).decode("ascii"), "protected": spec_b64u(hb).decode("ascii"),
             "signature": spec_b64u(s).decode("ascii")}
    if sym_choice("with_header", [False, True]):
        uh = sym_dict("uh")
        assume("alg" not in uh)
        value["header"] = uh
    out = call(jws.deserialize_json, value, key, ["HS256", "HS512"])
    good = py_eq(s, spec_hmac(HS[alg], k, signing_input(hb, p)))
    if out.returned:
        check(good, "flattened: returned => signature is the MAC of the received protected header and payload")
        check(py_eq(out.value.payload, p), "flattened: returned => payload is the received payload")
        check(same_json(out.value.member.protected, h), "flattened: returned => protected header is the received one")
    if not good:
        check(not out.returned, "flattened: any other signature is rejected")


def h_general_hs_authentic():
    """General JSON serialization with 0, 1 or 2 signatures: returned only if at least one signature is
    present and every signature present is valid."""
    key, k = oct_key("k")
    p = sym_bytes("p")
    n = sym_choice("n", [0, 1, 2])
    sigs = []
    goods = []
    if n >= 1:
        hb1, h1 = _hs_header("hb1", "HS256")
        s1 = sym_bytes("s1")
        sigs.append({"protected": spec_b64u(hb1).decode("ascii"), "signature": spec_b64u(s1).decode("ascii")})
        goods.append(py_eq(s1, spec_hmac("sha256", k, signing_input(hb1, p))))
    if n >= 2:
        hb2, h2 = _hs_header("hb2", "HS256")
        s2 = sym_bytes("s2")
        sigs.append({"protected": spec_b64u(hb2).decode("ascii"), "signature": spec_b64u(s2).decode("ascii")})
        goods.append(py_eq(s2, spec_hmac("sha256", k, signing_input(hb2, p))))
    value = {"payload": spec_b64u(p).decode("ascii"), "signatures": sigs}
    out = call(jws.deserialize_json, value, key, ["HS256"])
    if out.returned:
        check(n >= 1, "general: returned => at least one signature is present")
        check(all_of(*goods), "general: returned => every signature present is valid")
        check(py_eq(out.value.payload, p), "general: returned => payload is the received payload")
    if n >= 1 and not all_of(*goods):
        check(not out.returned, "general: one invalid signature makes the whole JWS rejected")


HARNESSES += [h_flattened_hs_authentic, h_general_hs_authentic]


# ---- per-algorithm refinements: X.verify(msg, sig, key)  <=>  Valid(X, key, msg, sig) ----------
from joserfc.jws import JWSRegistry


def _alg(name):
    return JWSRegistry.algorithms[name]


def _verify_refines(alg_name, key):
    msg = sym_bytes("msg")
    sig = sym_bytes("sig")
    out = call(_alg(alg_name).verify, msg, sig, key)
    check(out.returned, alg_name + ".verify returns a verdict for a key of its type (no exception)")
    check(isinstance(out.value, bool), alg_name + ".verify returns a bool")
    check(iff(out.value, spec_verify(alg_name, key, msg, sig)),
          alg_name + ".verify(msg, sig, key) <=> Valid(" + alg_name + ", key, msg, sig) per the RFC")


def h_verify_rsa():
    alg = sym_choice("alg", ["RS256", "RS384", "RS512", "PS256", "PS384", "PS512"])
    private = sym_choice("private", [True, False])
    _verify_refines(alg, make_key("rsa", "K", private))


def h_verify_ec():
    ac = sym_choice("alg", [("ES256", "secp256r1"), ("ES384", "secp384r1"), ("ES512", "secp521r1"), ("ES256K", "secp256k1")])
    private = sym_choice("private", [True, False])
    _verify_refines(ac[0], make_key("ec", "K", private, ac[1]))


def h_verify_eddsa():
    crv = sym_choice("crv", ["ed25519", "ed448"])
    private = sym_choice("private", [True, False])
    _verify_refines("EdDSA", make_key("okp", "K", private, crv))


def h_verify_hmac():
    alg = sym_choice("alg", ["HS256", "HS384", "HS512"])
    key, k = oct_key("k")
    _verify_refines(alg, key)


def h_verify_none():
    key, k = oct_key("k")
    msg = sym_bytes("msg")
    sig = sym_bytes("sig")
    out = call(_alg("none").verify, msg, sig, key)
    check(out.returned and out.value is False, "the none algorithm never verifies")


HARNESSES += [h_verify_rsa, h_verify_ec, h_verify_eddsa, h_verify_hmac, h_verify_none]


# ---- seeds for the native witness search: valid tokens and the tamperings named by the statement ----
def _seed_tokens(rnd):
    import json as _json
    import hmac as _hmac
    import hashlib as _hashlib
    alg_i = rnd.randrange(3)
    algn = ["HS256", "HS384", "HS512"][alg_i]
    hn = HS[algn]
    k = bytes(rnd.randrange(256) for _ in range(rnd.choice([1, 8, 32])))
    spell = rnd.choice(['{"alg":"%s"}', '{"alg": "%s"}', '{ "alg":"%s","typ":"JWT"}', '{"typ":"JWT","alg":"%s"}'])
    hb = (spell % algn).encode()
    p = bytes(rnd.randrange(256) for _ in range(rnd.choice([0, 1, 5])))
    from pyvc.spec import ref_B64U
    si = ref_B64U(hb) + b"." + ref_B64U(p)
    good = _hmac.new(k, si, getattr(_hashlib, hn)).digest()
    canon = _json.dumps(_json.loads(hb), separators=(",", ":")).encode()
    variants = [good, good[:-1], good + b"\x00", b"", bytes(len(good)),
                _hmac.new(k, ref_B64U(canon) + b"." + ref_B64U(p), getattr(_hashlib, hn)).digest(),
                _hmac.new(k + b"x", si, getattr(_hashlib, hn)).digest(),
                _hmac.new(k, ref_B64U(hb) + b"." + ref_B64U(p + b"x"), getattr(_hashlib, hn)).digest()]
    s = rnd.choice(variants)
    s2 = rnd.choice(variants)
    return {"alg": alg_i if alg_i < 2 else 1, "k": k, "hb": hb, "p": p, "s": s, "hb1": hb, "s1": s, "hb2": hb, "s2": s2,
            "n": rnd.choice([0, 1, 2, 2]), "with_header": 0}


for _h in (h_compact_hs_authentic, h_flattened_hs_authentic, h_general_hs_authentic):
    _h.seed_fn = _seed_tokens


# ---- RFC 7797 (unencoded payload) --------------------------------------------------------------
from joserfc.rfc7797 import deserialize_compact as d7797_compact, deserialize_json as d7797_json


def h_7797_compact():
    """b64=false (integrity protected, listed in crit): the payload segment is taken unencoded and the signing
    input is  BASE64URL(header) '.' payload ; an object is returned only for the MAC of exactly those octets."""
    key, k = oct_key("k")
    hb = sym_bytes("hb")
    assume(spec_json_ok(hb))
    h = spec_json_parse(hb)
    assume(isinstance(h, dict))
    assume(py_eq(h.get("alg"), "HS256"))
    assume(py_eq(h.get("b64"), False))
    p = sym_bytes("p")
    assume(b"." not in p)
    s = sym_bytes("s")
    detached = sym_choice("detached", [False, True])
    if detached:
        assume(len(p) > 0)      # an empty detached payload is the same call as "no payload given"
        token = spec_b64u(hb) + b".." + spec_b64u(s)
        out = call(d7797_compact, token, key, p, ["HS256"])
    else:
        token = spec_b64u(hb) + b"." + p + b"." + spec_b64u(s)
        out = call(d7797_compact, token, key, None, ["HS256"])
    good = py_eq(s, spec_hmac("sha256", k, spec_b64u(hb) + b"." + p))
    if out.returned:
        check(good, "7797 compact: returned => signature is the MAC of header segment '.' unencoded payload")
        check(py_eq(out.value.payload, p), "7797 compact: returned => payload is the received unencoded payload")
        check("crit" in h and "b64" in h["crit"], "7797 compact: returned => b64 is listed in crit")
    if not good:
        check(not out.returned, "7797 compact: any other signature is rejected")


def h_7797_json_b64_must_be_protected():
    """The unencoded-payload switch is honoured only when it is integrity-protected: with b64=false only in the
    *unprotected* header the payload must not be taken unencoded."""
    key, k = oct_key("k")
    p = sym_bytes("p")
    s = sym_bytes("s")
    hb = b'{"alg":"HS256"}'
    value = {"payload": spec_b64u(p).decode("ascii"), "protected": spec_b64u(hb).decode("ascii"),
             "header": {"b64": False, "crit": ["b64"]}, "signature": spec_b64u(s).decode("ascii")}
    out = call(d7797_json, value, key, ["HS256"])
    check(out.raised_only(Exception), "7797 JSON: call completes")
    if out.returned and not known("F-C01-2"):
        check(py_eq(out.value.payload, p),
              "7797 JSON: b64=false outside the protected header is not honoured (payload stays base64url-decoded)")


def h_7797_compact_payload_argument():
    """b64=false token with the payload inline *and* a payload argument given by the caller: whatever payload is
    returned must be the one the signature covers."""
    key, k = oct_key("k")
    hb = b'{"alg":"HS256","b64":false,"crit":["b64"]}'
    p = sym_bytes("p")
    assume(b"." not in p and len(p) > 0)
    q = sym_bytes("q")
    assume(len(q) > 0)
    s = sym_bytes("s")
    token = spec_b64u(hb) + b"." + p + b"." + spec_b64u(s)
    out = call(d7797_compact, token, key, q, ["HS256"])
    if out.returned:
        check(py_eq(s, spec_hmac("sha256", k, spec_b64u(hb) + b"." + out.value.payload)),
              "7797 compact: the payload returned is the one the signature covers (payload argument given for an inline token)")


def _seed_7797_arg(rnd):
    import hmac as _hmac
    import hashlib as _hashlib
    from pyvc.spec import ref_B64U
    k = b"secret-key"
    hb = b'{"alg":"HS256","b64":false,"crit":["b64"]}'
    p = rnd.choice([b"hello", b"abc~d"])
    q = rnd.choice([b"evil", b"hello", b"x"])
    sig_p = _hmac.new(k, ref_B64U(hb) + b"." + p, _hashlib.sha256).digest()
    sig_q = _hmac.new(k, ref_B64U(hb) + b"." + q, _hashlib.sha256).digest()
    return {"k": k, "p": p, "q": q, "s": rnd.choice([sig_p, sig_q])}


h_7797_compact_payload_argument.seed_fn = _seed_7797_arg
HARNESSES += [h_7797_compact, h_7797_json_b64_must_be_protected, h_7797_compact_payload_argument]


def _seed_7797(rnd):
    import hmac as _hmac
    import hashlib as _hashlib
    from pyvc.spec import ref_B64U
    k = bytes(rnd.randrange(256) for _ in range(rnd.choice([1, 8, 32])))
    p = rnd.choice([b"", b"abc", b"a b", b"\xff\x00", b"abc\n", b"payload~x"])
    hb = rnd.choice([b'{"alg":"HS256","b64":false,"crit":["b64"]}', b'{"b64":false,"alg":"HS256","crit":["b64"]}',
                     b'{"alg":"HS256","b64":false}', b'{"alg":"HS256","b64":false,"crit":["b64"],"kid":"1"}'])
    raw = _hmac.new(k, ref_B64U(hb) + b"." + p, _hashlib.sha256).digest()
    enc = _hmac.new(k, ref_B64U(hb) + b"." + ref_B64U(p), _hashlib.sha256).digest()
    hb2 = b'{"alg":"HS256"}'
    raw2 = _hmac.new(k, ref_B64U(hb2) + b"." + ref_B64U(p), _hashlib.sha256).digest()   # MAC over the base64 *text* taken as payload
    return {"k": k, "p": p, "hb": hb, "s": rnd.choice([raw, enc, raw2, raw[:-1]]), "detached": rnd.randrange(2)}


h_7797_compact.seed_fn = _seed_7797
h_7797_json_b64_must_be_protected.seed_fn = _seed_7797
