"""C18 -- every encryption and key generation draws fresh randomness of the right size.

Entropy-tape model (DESIGN.md section 5): secrets.token_bytes and the key generators consume distinct cells of
an uninterpreted tape.  Proved per call: which values are tape draws, their sizes, that they are drawn in this call
(not read from the algorithm object, the key or module state) and that no cell is used twice.  Pairwise
distinctness / absence of fixed bits then hold with overwhelming probability under the trusted CSPRNG; that
statistical part is not decidable by this technique and is stated as such.
"""
from pyvc.api import *
from props.jwelib import *
from joserfc import jwe
from joserfc.jwe import GeneralJSONEncryption
from joserfc.jwk import OctKey, RSAKey, ECKey, OKPKey
from joserfc.util import urlsafe_b64decode

PROPERTY = "C18"
IV_LEN = {"A128CBC-HS256": 16, "A192CBC-HS384": 16, "A256CBC-HS512": 16, "A128GCM": 12, "A192GCM": 12, "A256GCM": 12}
CEK_LEN = {"A128CBC-HS256": 32, "A192CBC-HS384": 48, "A256CBC-HS512": 64, "A128GCM": 16, "A192GCM": 24, "A256GCM": 32}
ALGS_ALL = None


def _sizes(draws, what):
    return [d[1] for d in draws if d[0] == what]


def _distinct_cells(draws):
    cells = [d[2] for d in draws]
    return len(cells) == len(set(cells))


def _iv_of(token):
    return urlsafe_b64decode(token.split(".")[2].encode("ascii"))


def h_direct():
    enc = sym_choice("enc", ["A128CBC-HS256", "A192CBC-HS384", "A256CBC-HS512", "A128GCM", "A192GCM", "A256GCM"])
    key, k = oct_key_of_len("k", CEK_LEN[enc])
    out = call(jwe.encrypt_compact, {"alg": "dir", "enc": enc}, sym_bytes("p"), key, ["dir", enc])
    check(out.returned, "dir: encryption returns")
    if is_native():
        iv = _iv_of(out.value)
        check(len(iv) == IV_LEN[enc], "dir: the IV has exactly the size the content encryption requires")
        out2 = call(jwe.encrypt_compact, {"alg": "dir", "enc": enc}, b"p", key, ["dir", enc])
        check(_iv_of(out2.value) != iv, "dir: two encryptions with the same key use different IVs")
    else:
        draws = random_draws(out)
        check(py_eq(_sizes(draws, "token_bytes"), [IV_LEN[enc]]), "dir: exactly one draw, the IV, of exactly the size the content encryption requires (the CEK is the shared key)")
        check(_distinct_cells(draws), "dir: distinct tape cells")
        check(len(shared_writes(out)) == 0, "dir: nothing random is stored in the shared algorithm objects, registry or key")


def h_key_wrap():
    ak = sym_choice("alg", [("A128KW", 16), ("A256KW", 32), ("A192GCMKW", 24)])
    enc = sym_choice("enc", ["A128CBC-HS256", "A256GCM"])
    key, k = oct_key_of_len("k", ak[1])
    out = call(jwe.encrypt_compact, {"alg": ak[0], "enc": enc}, sym_bytes("p"), key, [ak[0], enc])
    check(out.returned, "key wrapping: encryption returns")
    if is_native():
        check(len(_iv_of(out.value)) == IV_LEN[enc], "key wrapping: IV of exactly the required size")
    if not is_native():
        draws = random_draws(out)
        sizes = _sizes(draws, "token_bytes")
        expect = [CEK_LEN[enc]] + ([12] if ak[0].endswith("GCMKW") else []) + [IV_LEN[enc]]
        check(py_eq(sorted(sizes), sorted(expect)), "key wrapping: one CEK draw of exactly the required size, one IV draw (and a 96-bit key-wrap IV for GCMKW), nothing else")
        check(_distinct_cells(draws), "key wrapping: every random value comes from its own tape cell")
        check(len(shared_writes(out)) == 0, "key wrapping: nothing random is stored in (or later read from) the shared algorithm objects, registry or key")


def h_pbes2():
    alg = sym_choice("alg", ["PBES2-HS256+A128KW", "PBES2-HS512+A256KW"])
    key, k = oct_key_of_len("pw", 10)
    out = call(jwe.encrypt_compact, {"alg": alg, "enc": "A128GCM"}, sym_bytes("p"), key, [alg, "A128GCM"])
    check(out.returned, "PBES2: encryption returns")
    from joserfc.rfc7518.jwe_algs import PBES2HSAlgModel
    check(PBES2HSAlgModel.DEFAULT_P2C >= 1000, "PBES2: default iteration count is at least 1000")
    if is_native():
        h = jwe.decrypt_compact(out.value, key, [alg, "A128GCM"]).headers()
        check(h.get("p2c") >= 1000, "PBES2: the iteration count on the wire is at least 1000")
        check(len(urlsafe_b64decode(h.get("p2s").encode("ascii"))) >= 8, "PBES2: salt input of at least 8 octets")
    else:
        draws = random_draws(out)
        check(py_eq(sorted(_sizes(draws, "token_bytes")), [12, 16, 16]), "PBES2: fresh 16-octet salt input, one CEK, one IV")
        check(_distinct_cells(draws), "PBES2: distinct tape cells")


def h_ecdh():
    alg = sym_choice("alg", ["ECDH-ES", "ECDH-ES+A128KW"])
    kc = sym_choice("curve", [("ec", "secp256r1"), ("ec", "secp384r1"), ("okp", "x25519")])
    pub = make_key(kc[0], "E", False, kc[1])
    out = call(jwe.encrypt_compact, {"alg": alg, "enc": "A128GCM"}, sym_bytes("p"), pub, [alg, "A128GCM"])
    check(out.returned, "ECDH-ES: encryption returns")
    if not is_native():
        draws = random_draws(out)
        gens = [d[0] for d in draws if d[1] is None]
        want = "EC/" + kc[1] if kc[0] == "ec" else "OKP/" + kc[1]
        check(py_eq(gens, [want]), "ECDH-ES: exactly one ephemeral key is generated, on the recipient's curve")
        check(py_eq(sorted(_sizes(draws, "token_bytes")), [12] if alg == "ECDH-ES" else [12, 16]), "ECDH-ES: IV (and CEK when wrapping) freshly drawn")
        check(_distinct_cells(draws), "ECDH-ES: distinct tape cells")


def h_two_recipients_share_one_cek():
    k1, kb1 = oct_key_of_len("k1", 16)
    k2, kb2 = oct_key_of_len("k2", 16)
    obj = GeneralJSONEncryption({"enc": "A128GCM"}, sym_bytes("p"))
    obj.add_recipient({"alg": "A128KW"}, k1)
    obj.add_recipient({"alg": "A128GCMKW"}, k2)
    out = call(jwe.encrypt_json, obj, None, ["A128KW", "A128GCMKW", "A128GCM"])
    check(out.returned, "two recipients: encryption returns")
    if not is_native():
        draws = random_draws(out)
        check(py_eq(sorted(_sizes(draws, "token_bytes")), [12, 12, 16]), "two recipients: one CEK for all recipients, one content IV, one key-wrap IV")
        check(_distinct_cells(draws), "two recipients: distinct tape cells")


def h_generate_oct():
    n = sym_int("n")
    assume(n >= 0 and n % 8 == 0)
    out = call(OctKey.generate_key, n)
    check(out.returned, "OctKey.generate_key returns for a size that is a multiple of 8")
    check(len(out.value.raw_value) * 8 == n, "generated oct key has exactly the requested size")
    if not is_native():
        check(is_fresh_draw(out.value.raw_value, n // 8), "generated oct key is a fresh draw of the entropy tape")


def h_generate_asymmetric():
    kind = sym_choice("kind", ["EC:P-256", "EC:P-384", "EC:P-521", "EC:secp256k1", "OKP:Ed25519", "OKP:Ed448", "OKP:X25519", "OKP:X448", "RSA"])
    if kind == "RSA":
        out = call(RSAKey.generate_key, 2048)
        check(out.returned and out.value.raw_value.key_size == 2048, "generated RSA key has the requested size")
    elif kind.startswith("EC:"):
        out = call(ECKey.generate_key, kind[3:])
        check(out.returned and py_eq(out.value.curve_name, kind[3:]), "generated EC key is on the requested curve")
    else:
        out = call(OKPKey.generate_key, kind[4:])
        check(out.returned and py_eq(out.value.curve_name, kind[4:]), "generated OKP key is on the requested curve")
    if not is_native():
        draws = random_draws(out)
        check(len([d for d in draws if d[1] is None]) == 1 and _distinct_cells(draws), "exactly one fresh private key is generated per call")


HARNESSES = [h_direct, h_key_wrap, h_pbes2, h_ecdh, h_two_recipients_share_one_cek, h_generate_oct, h_generate_asymmetric]
