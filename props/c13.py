"""C13 -- thumbprints are the RFC 7638 value and depend only on the public key."""
from pyvc.api import *
from joserfc.jwk import OctKey, RSAKey, ECKey, OKPKey, KeySet
from joserfc.rfc7638 import thumbprint as rfc7638_thumbprint

PROPERTY = "C13"
REQUIRED = {"oct": ["k", "kty"], "RSA": ["e", "kty", "n"], "EC": ["crv", "kty", "x", "y"], "OKP": ["crv", "kty", "x"]}


def spec_thumb(members, digest="sha256"):
    """RFC 7638 section 3: BASE64URL(hash(UTF8(JSON object of the required members, lexicographic order, no whitespace)))"""
    names = sorted(members.keys())
    obj = {}
    for n in names:
        obj[n] = members[n]
    return spec_b64u(spec_hash(digest, spec_utf8(spec_jsonc(obj)))).decode("ascii")


def _mk(kind, private, params):
    if kind == "oct":
        return OctKey.import_key(sym_bytes("k"), params)
    if kind == "RSA":
        return make_key("rsa", "K", private, None, params)
    if kind == "EC":
        return make_key("ec", "K", private, sym_choice("crv", ["secp256r1", "secp384r1", "secp521r1", "secp256k1"]), params)
    return make_key("okp", "K", private, sym_choice("crv", ["ed25519", "ed448", "x25519", "x448"]), params)


def h_thumbprint_is_rfc7638():
    kind = sym_choice("kind", ["oct", "RSA", "EC", "OKP"])
    private = sym_choice("private", [True, False])
    params = None
    if sym_choice("with_params", [False, True]):
        params = {"kid": sym_str("kid"), "use": "sig", "alg": sym_str("algp")}
    key = _mk(kind, private, params)
    out = call(key.thumbprint)
    check(out.returned, "thumbprint returns")
    d = key.as_dict(private=None)
    req = {}
    for n in REQUIRED[kind]:
        req[n] = d[n]
    check(py_eq(out.value, spec_thumb(req)), "thumbprint = RFC 7638 value over exactly the required members of the key type")


def h_thumbprint_private_equals_public():
    kind = sym_choice("kind", ["RSA", "EC", "OKP"])
    crv = None
    if kind == "EC":
        crv = sym_choice("crv", ["secp256r1", "secp521r1"])
    if kind == "OKP":
        crv = sym_choice("crv", ["ed25519", "x448"])
    k = {"RSA": "rsa", "EC": "ec", "OKP": "okp"}[kind]
    priv = make_key(k, "K", True, crv, {"kid": "a", "use": "sig"})
    pub = make_key(k, "K", False, crv)
    check(py_eq(priv.thumbprint(), pub.thumbprint()), "private and public form (with or without optional members) have the same thumbprint")


def h_ensure_kid():
    kind = sym_choice("kind", ["oct", "EC"])
    given = sym_choice("given", [False, True])
    params = {"kid": sym_str("kid")} if given else None
    key = _mk(kind, True, params)
    t = key.thumbprint()
    key.ensure_kid()
    if given:
        check(py_eq(key.kid, params["kid"]), "an existing kid is never overwritten")
    else:
        check(py_eq(key.kid, t), "an automatically assigned kid equals the thumbprint")
    first = key.kid
    key.ensure_kid()
    check(py_eq(key.kid, first), "the kid is stable across repeated calls")
    check(py_eq(key.as_dict().get("kid"), first), "and across exports")
    check(py_eq(key.thumbprint(), t), "assigning a kid does not change the thumbprint")


def h_digest_selection():
    d = {"kty": "oct", "k": sym_str("kv")}
    dig = sym_choice("dig", ["sha256", "sha384", "sha512"])
    out = call(rfc7638_thumbprint, d, ["k", "kty"], dig)
    check(out.returned and py_eq(out.value, spec_thumb(d, dig)), "the selected digest is the one used")


HARNESSES = [h_thumbprint_is_rfc7638, h_thumbprint_private_equals_public, h_ensure_kid, h_digest_selection]
