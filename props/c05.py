"""C05 -- only caller-allowed algorithms are ever used; default is the recommended set.

get_alg / get_enc / get_zip of the JWS and JWE registries are verified against
Allowed(name, allow) := name in TABLE and (allow is None ? name in RECOMMENDED : name in allow)
for every JSON value offered as a name and every allow-list; the recommended sets and tables are the literal
sets of the property statement; the API paths use exactly that gate (returned => alg allowed), 'none' never
verifies, and API calls write nothing into registries, class tables or algorithm models (history independence).
"""
from pyvc.api import *
from props.jwslib import *
from joserfc import jws, jwe
from joserfc.jws import JWSRegistry
from joserfc.jwe import JWERegistry
from joserfc.rfc7797 import JWSRegistry as B64Registry
from joserfc.rfc7515.registry import construct_registry, default_registry
from joserfc.errors import UnsupportedAlgorithmError

PROPERTY = "C05"
JWS_TABLE = ["none", "HS256", "HS384", "HS512", "RS256", "RS384", "RS512", "ES256", "ES384", "ES512", "PS256", "PS384",
             "PS512", "EdDSA", "ES256K"]
JWS_RECOMMENDED = ["HS256", "RS256", "ES256"]
JWE_ALG_TABLE = ["RSA1_5", "RSA-OAEP", "RSA-OAEP-256", "A128KW", "A192KW", "A256KW", "dir", "ECDH-ES", "ECDH-ES+A128KW",
                 "ECDH-ES+A192KW", "ECDH-ES+A256KW", "A128GCMKW", "A192GCMKW", "A256GCMKW", "PBES2-HS256+A128KW",
                 "PBES2-HS384+A192KW", "PBES2-HS512+A256KW"]
JWE_ENC_TABLE = ["A128CBC-HS256", "A192CBC-HS384", "A256CBC-HS512", "A128GCM", "A192GCM", "A256GCM"]
JWE_ZIP_TABLE = ["DEF"]
JWE_RECOMMENDED = ["RSA-OAEP", "A128KW", "A256KW", "dir", "ECDH-ES", "ECDH-ES+A128KW", "ECDH-ES+A256KW"] + JWE_ENC_TABLE + ["DEF"]


def allow_list(name):
    """None (no explicit list) or an arbitrary list of strings."""
    if sym_choice(name + "_given", [False, True]):
        l = sym_list(name)
        assume(is_list_of_str(l))
        return l
    return None


def allowed(name, table, recommended, allow):
    if not isinstance(name, str) or name not in table:
        return False
    if allow is None:
        return name in recommended
    return name in allow


def _gate(get, name, table, recommended, allow, tag):
    out = call(get, name)
    ok = allowed(name, table, recommended, allow)
    if known("F-C05-1") and allow is not None and len(allow) == 0:
        return
    check(iff(out.returned, ok), tag + ": returns exactly for the allowed names")
    if out.returned:
        check(py_eq(out.value.name, name), tag + ": returns the algorithm registered under that name")
    elif isinstance(name, str):
        check(out.raised(UnsupportedAlgorithmError), tag + ": a well-typed name that is not allowed raises the unsupported-algorithm error")


def h_jws_get_alg():
    allow = allow_list("allow")
    reg = JWSRegistry(algorithms=allow)
    _gate(reg.get_alg, sym_json("name"), JWS_TABLE, JWS_RECOMMENDED, allow, "JWS get_alg")


def h_b64_registry_get_alg():
    allow = allow_list("allow")
    reg = B64Registry(algorithms=allow)
    _gate(reg.get_alg, sym_json("name"), JWS_TABLE, JWS_RECOMMENDED, allow, "RFC7797 registry get_alg")


def h_jwe_get_alg():
    allow = allow_list("allow")
    reg = JWERegistry(algorithms=allow)
    _gate(reg.get_alg, sym_json("name"), JWE_ALG_TABLE, JWE_RECOMMENDED, allow, "JWE get_alg")


def h_jwe_get_enc():
    allow = allow_list("allow")
    reg = JWERegistry(algorithms=allow)
    _gate(reg.get_enc, sym_json("name"), JWE_ENC_TABLE, JWE_RECOMMENDED, allow, "JWE get_enc")


def h_jwe_get_zip():
    allow = allow_list("allow")
    reg = JWERegistry(algorithms=allow)
    _gate(reg.get_zip, sym_json("name"), JWE_ZIP_TABLE, JWE_RECOMMENDED, allow, "JWE get_zip")


def h_tables():
    """The closed import-time configuration is the one the statement names (evaluated from the working tree)."""
    check(sorted(JWSRegistry.algorithms.keys()) == sorted(JWS_TABLE), "JWS table = the 15 registered names")
    check(sorted(JWSRegistry.recommended) == sorted(JWS_RECOMMENDED), "JWS recommended = HS256, RS256, ES256")
    check(sorted(JWERegistry.algorithms["alg"].keys()) == sorted(JWE_ALG_TABLE), "JWE alg table = the 17 RFC 7518 names")
    check(sorted(JWERegistry.algorithms["enc"].keys()) == sorted(JWE_ENC_TABLE), "JWE enc table = the 6 RFC 7518 names")
    check(sorted(JWERegistry.algorithms["zip"].keys()) == sorted(JWE_ZIP_TABLE), "JWE zip table = DEF")
    check(sorted(JWERegistry.recommended) == sorted(JWE_RECOMMENDED), "JWE recommended set as stated")
    for n in JWS_TABLE:
        check(JWSRegistry.algorithms[n].name == n, "JWS table entry '" + n + "' is registered under its own name")


def h_construct_registry():
    allow = allow_list("allow")
    reg = construct_registry(allow)
    if known("F-C05-1") and allow is not None and len(allow) == 0:
        return
    if allow is None:
        check(reg is default_registry, "no list => the default registry")
    else:
        check(py_eq(reg.allowed, allow), "explicit list => a registry allowing exactly that list")


def h_api_uses_gate():
    """deserialize_compact returns => the token's alg is allowed by this call's list; 'none' never verifies."""
    key, k = oct_key("k")
    hb = sym_bytes("hb")
    assume(spec_json_ok(hb))
    h = spec_json_parse(hb)
    assume(isinstance(h, dict))
    allow = sym_choice("allow", [None, ["HS256"], ["HS384", "none"], ["none"], ["HS512", "RS256"]])
    token = compact_token(hb, sym_bytes("p"), sym_bytes("s"))
    out = call(jws.deserialize_compact, token, key, allow)
    if out.returned:
        check(allowed(h.get("alg"), JWS_TABLE, JWS_RECOMMENDED, allow), "JWS API: returned => alg allowed for this call")
        check(not py_eq(h.get("alg"), "none"), "JWS API: the none algorithm never yields a successful verification")
    check(len(shared_writes(out)) == 0, "JWS API: no write to registries, class tables, algorithm models or keys")


HARNESSES = [h_jws_get_alg, h_b64_registry_get_alg, h_jwe_get_alg, h_jwe_get_enc, h_jwe_get_zip, h_tables,
             h_construct_registry, h_api_uses_gate]
