"""C04 -- JWE encrypt-then-decrypt round trip for every alg family, enc, zip and serialization; forbidden
combinations refused at encryption time."""
from pyvc.api import *
from props.jwelib import *
from joserfc import jwe
from joserfc.jwe import GeneralJSONEncryption, FlattenedJSONEncryption
from joserfc.errors import ConflictAlgorithmError, InvalidEncryptionAlgorithmError

PROPERTY = "C04"
ALGS_ALL = ["RSA1_5", "RSA-OAEP", "RSA-OAEP-256", "A128KW", "A192KW", "A256KW", "dir", "ECDH-ES", "ECDH-ES+A128KW",
            "ECDH-ES+A192KW", "ECDH-ES+A256KW", "A128GCMKW", "A192GCMKW", "A256GCMKW", "PBES2-HS256+A128KW",
            "PBES2-HS384+A192KW", "PBES2-HS512+A256KW"] + ALL_ENC + ["DEF"]
CEK_LEN = {"A128CBC-HS256": 32, "A192CBC-HS384": 48, "A256CBC-HS512": 64, "A128GCM": 16, "A192GCM": 24, "A256GCM": 32}


def _roundtrip(header, key_enc, key_dec, tag):
    p = sym_bytes("p")
    expect = dict(header)
    out = call(jwe.encrypt_compact, header, p, key_enc, ALGS_ALL)
    check(out.returned, tag + ": encryption returns for a key of the required type and size")
    back = call(jwe.decrypt_compact, out.value, key_dec, ALGS_ALL)
    check(back.returned, tag + ": decrypting what was encrypted returns")
    check(py_eq(back.value.plaintext, p), tag + ": round trip yields exactly the original plaintext octets")
    for name in expect:
        check(py_eq(back.value.headers().get(name), expect[name]), tag + ": header member '" + name + "' comes back")


def h_dir():
    enc = sym_choice("enc", ALL_ENC)
    key, k = oct_key_of_len("k", CEK_LEN[enc])
    _roundtrip({"alg": "dir", "enc": enc}, key, key, "dir")


def h_aeskw():
    ak = sym_choice("alg", [("A128KW", 16), ("A192KW", 24), ("A256KW", 32)])
    enc = sym_choice("enc", ["A128CBC-HS256", "A256GCM"])
    key, k = oct_key_of_len("k", ak[1])
    _roundtrip({"alg": ak[0], "enc": enc}, key, key, "AES-KW")


def h_gcmkw():
    ak = sym_choice("alg", [("A128GCMKW", 16), ("A192GCMKW", 24), ("A256GCMKW", 32)])
    enc = sym_choice("enc", ["A192CBC-HS384", "A128GCM"])
    key, k = oct_key_of_len("k", ak[1])
    _roundtrip({"alg": ak[0], "enc": enc}, key, key, "AES-GCMKW")


def h_pbes2():
    alg = sym_choice("alg", ["PBES2-HS256+A128KW", "PBES2-HS384+A192KW", "PBES2-HS512+A256KW"])
    enc = sym_choice("enc", ["A256CBC-HS512", "A192GCM"])
    key, k = oct_key("pw") if False else oct_key_of_len("pw", 9)
    _roundtrip({"alg": alg, "enc": enc}, key, key, "PBES2")


def h_rsa():
    alg = sym_choice("alg", ["RSA1_5", "RSA-OAEP", "RSA-OAEP-256"])
    enc = sym_choice("enc", ["A128CBC-HS256", "A128GCM"])
    _roundtrip({"alg": alg, "enc": enc}, make_key("rsa", "R", False), make_key("rsa", "R", True), "RSA")


def h_ecdh_es():
    alg = sym_choice("alg", ["ECDH-ES", "ECDH-ES+A128KW", "ECDH-ES+A192KW", "ECDH-ES+A256KW"])
    enc = "A128CBC-HS256"
    kc = sym_choice("curve", [("ec", "secp256r1"), ("okp", "x25519")])
    hdr = {"alg": alg, "enc": enc}
    if sym_choice("apuv", [False, True]):
        hdr["apu"] = spec_b64u(sym_bytes("apu")).decode("ascii")
        hdr["apv"] = spec_b64u(sym_bytes("apv")).decode("ascii")
    _roundtrip(hdr, make_key(kc[0], "E", False, kc[1]), make_key(kc[0], "E", True, kc[1]), "ECDH-ES")


def h_ecdh_es_direct_encs():
    enc = sym_choice("enc", ALL_ENC)
    kc = sym_choice("curve", [("ec", "secp521r1"), ("okp", "x448")])
    _roundtrip({"alg": "ECDH-ES", "enc": enc}, make_key(kc[0], "E", False, kc[1]), make_key(kc[0], "E", True, kc[1]), "ECDH-ES direct")


def h_zip():
    key, k = oct_key_of_len("k", 16)
    p = sym_bytes("p")
    assume(len(p) <= 256000)
    t = jwe.encrypt_compact({"alg": "dir", "enc": "A128GCM", "zip": "DEF"}, p, key)
    back = call(jwe.decrypt_compact, t, key)
    check(back.returned, "zip=DEF: decrypting what was encrypted returns (plaintext within the limit)")
    check(py_eq(back.value.plaintext, p), "zip=DEF: round trip yields the original plaintext")


def h_json_two_recipients():
    """General JSON, two recipients with different key-wrapping algorithms, shared unprotected header, AAD."""
    k1, kb1 = oct_key_of_len("k1", 16)
    k2, kb2 = oct_key_of_len("k2", 32)
    p = sym_bytes("p")
    aad = sym_bytes("aad")
    which = sym_choice("decrypt_with", [1, 2])
    obj = GeneralJSONEncryption({"enc": "A128CBC-HS256"}, p, {"cty": "x"}, aad)
    obj.add_recipient({"alg": "A128KW", "kid": "one"}, k1)
    obj.add_recipient({"alg": "A256KW", "kid": "two"}, k2)
    out = call(jwe.encrypt_json, obj, None, ALGS_ALL)
    check(out.returned, "general JSON: encryption with two recipients returns")
    from joserfc.jwe import JWERegistry
    reg = JWERegistry(algorithms=ALGS_ALL, verify_all_recipients=False)
    back = call(jwe.decrypt_json, out.value, k1 if which == 1 else k2, None, reg)
    check(back.returned, "general JSON: either recipient decrypts (any-recipient validation)")
    check(py_eq(back.value.plaintext, p), "general JSON: round trip yields the original plaintext")
    check(py_eq(back.value.aad, aad) if len(aad) > 0 else True, "general JSON: AAD comes back")
    check(py_eq(back.value.unprotected, {"cty": "x"}), "general JSON: shared unprotected header comes back in place")


def h_flattened_json():
    k1, kb1 = oct_key_of_len("k1", 24)
    p = sym_bytes("p")
    obj = FlattenedJSONEncryption({"enc": "A192GCM"}, p, None, sym_bytes("aad"))
    obj.add_recipient({"alg": "A192KW"}, k1)
    out = call(jwe.encrypt_json, obj, None, ALGS_ALL)
    check(out.returned, "flattened JSON: encryption returns")
    back = call(jwe.decrypt_json, out.value, k1, ALGS_ALL)
    check(back.returned and py_eq(back.value.plaintext, p), "flattened JSON: round trip yields the original plaintext")


def h_refuse_direct_with_several_recipients():
    k1, kb1 = oct_key_of_len("k1", 16)
    k2, kb2 = oct_key_of_len("k2", 16)
    obj = GeneralJSONEncryption({"enc": "A128GCM"}, sym_bytes("p"))
    first = sym_choice("first", ["dir", "A128KW"])
    obj.add_recipient({"alg": first}, k1)
    obj.add_recipient({"alg": "dir"}, k2)
    out = call(jwe.encrypt_json, obj, None, ALGS_ALL)
    check(out.raised(ConflictAlgorithmError), "a direct mode with several recipients is refused at encryption time")


HARNESSES = [h_dir, h_aeskw, h_gcmkw, h_pbes2, h_rsa, h_ecdh_es, h_ecdh_es_direct_encs, h_zip, h_json_two_recipients, h_flattened_json,
             h_refuse_direct_with_several_recipients]


def h_1pu_key_wrapping_refuses_non_cbc_hmac_encs():
    """ECDH-1PU key agreement with key wrapping is only defined for the AES_CBC_HMAC_SHA2 content encryptions: every other
    content-encryption model (AES-GCM and the ChaCha20 drafts) is refused at encryption time; direct mode accepts any."""
    from joserfc.drafts.jwe_ecdh_1pu import JWE_ALG_MODELS as ONE_PU
    from joserfc.drafts.jwe_chacha20 import JWE_ENC_MODELS as CHACHA
    from joserfc.rfc7518.jwe_encs import JWE_ENC_MODELS as RFC_ENCS
    alg = sym_choice("alg", ONE_PU)
    enc = sym_choice("enc", list(RFC_ENCS) + list(CHACHA))
    out = call(alg.encrypt_agreed_upon_key, enc, None)
    cbc = enc.name in ("A128CBC-HS256", "A192CBC-HS384", "A256CBC-HS512")
    if alg.name != "ECDH-1PU" and not cbc:
        check(out.raised(InvalidEncryptionAlgorithmError), "ECDH-1PU+KW with a content encryption outside AES_CBC_HMAC_SHA2 is refused at encryption time")
    else:
        check(not out.raised(InvalidEncryptionAlgorithmError), "permitted ECDH-1PU combinations are not refused by the content-encryption gate")


h_1pu_key_wrapping_refuses_non_cbc_hmac_encs.seed_fn = lambda rnd: {"alg": rnd.randrange(4), "enc": rnd.randrange(8)}
HARNESSES.append(h_1pu_key_wrapping_refuses_non_cbc_hmac_encs)
