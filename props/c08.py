"""C08 -- JWE octets on the wire are those of RFC 7516/7518 and the implemented drafts.

Acceptance of any spelling of the protected header (the tag is checked over the received octets), and the
inputs the real code hands to the primitives: Concat KDF OtherInfo, PBES2 salt/hash/length, RSA paddings,
GCM key-wrap IV, raw DEFLATE framing -- each compared with the layout written from the RFC text.
"""
from pyvc.api import *
from props.jwelib import *
from props.c02 import _header, _token
from props.c17 import h_compress_is_raw_deflate
from joserfc import jwe

PROPERTY = "C08"
ALGS = None


def h_accepts_any_spelling():
    """A JWE produced elsewhere -- any spelling of the protected header JSON -- decrypts when its tag is valid."""
    key, k = oct_key_of_len("k", 16)
    hb = sym_bytes("hb")
    assume(spec_json_ok(hb))
    h = spec_json_parse(hb)
    assume(isinstance(h, dict))
    assume(py_eq(h.get("alg"), "dir") and py_eq(h.get("enc"), "A128GCM"))
    assume(forall_keys(h, lambda n: n == "alg" or n == "enc"))
    iv, ct, tag = sym_bytes("iv"), sym_bytes("ct"), sym_bytes("tag")
    assume(len(iv) == 12)
    aad = spec_b64u(hb)
    assume(spec_gcm_ok(k, iv, aad, ct, tag))
    out = call(jwe.decrypt_compact, _token(hb, b"", iv, ct, tag), key, ["dir", "A128GCM"])
    check(out.returned, "a valid JWE with any spelling of the protected header is accepted")
    check(py_eq(out.value.plaintext, spec_gcm_dec(k, iv, aad, ct, tag)), "and yields the plaintext")


def _lp(b):
    """32-bit big-endian length prefix + data (RFC 7518 section 4.6.2)"""
    return spec_i2osp(len(b), 4) + b


def h_concat_kdf_other_info():
    alg = sym_choice("alg", ["ECDH-ES", "ECDH-ES+A128KW", "ECDH-ES+A256KW"])
    enc = sym_choice("enc", ["A128GCM", "A256CBC-HS512"])
    pub = make_key("ec", "E", False, "secp256r1")
    hdr = {"alg": alg, "enc": enc}
    apu, apv = b"", b""
    if sym_choice("apuv", [False, True]):
        apu, apv = sym_bytes("apu"), sym_bytes("apv")
        assume(len(apu) > 0 and len(apv) > 0)
        hdr["apu"] = spec_b64u(apu).decode("ascii")
        hdr["apv"] = spec_b64u(apv).decode("ascii")
    out = call(jwe.encrypt_compact, hdr, sym_bytes("p"), pub, [alg, enc, "A128KW", "A256KW"])
    check(out.returned, "ECDH-ES: encryption returns")
    if not is_native():
        evs = crypto_events(out, "concatkdf")
        check(len(evs) == 1, "ECDH-ES: exactly one Concat KDF derivation")
        hname, z, length, otherinfo = evs[0]
        direct = alg == "ECDH-ES"
        keydatalen = {"A128GCM": 128, "A256CBC-HS512": 512}[enc] if direct else {"ECDH-ES+A128KW": 128, "ECDH-ES+A256KW": 256}[alg]
        algid = enc if direct else alg
        expect = _lp(algid.encode("ascii")) + (_lp(apu) if len(apu) > 0 else b"\x00\x00\x00\x00") \
            + (_lp(apv) if len(apv) > 0 else b"\x00\x00\x00\x00") + spec_i2osp(keydatalen, 4)
        check(hname == "sha256", "Concat KDF uses SHA-256")
        check(py_eq(length, keydatalen // 8), "Concat KDF keydatalen = size of the CEK (direct) / of the key-wrapping key")
        check(py_eq(otherinfo, expect), "OtherInfo = AlgorithmID || PartyUInfo || PartyVInfo || SuppPubInfo with 32-bit length prefixes (decoded apu/apv)")


def h_pbes2_inputs():
    a = sym_choice("alg", [("PBES2-HS256+A128KW", "sha256", 16), ("PBES2-HS384+A192KW", "sha384", 24), ("PBES2-HS512+A256KW", "sha512", 32)])
    key, pw = oct_key_of_len("pw", 8)
    p2s = sym_bytes("p2s")
    assume(len(p2s) >= 8)
    p2c = sym_int("p2c")
    assume(p2c >= 1000 and p2c < 100000)
    hdr = {"alg": a[0], "enc": "A128GCM", "p2s": spec_b64u(p2s).decode("ascii"), "p2c": p2c}
    out = call(jwe.encrypt_compact, hdr, sym_bytes("p"), key, [a[0], "A128GCM"])
    check(out.returned, "PBES2: encryption returns")
    if not is_native():
        evs = crypto_events(out, "pbkdf2")
        check(len(evs) == 1, "PBES2: exactly one PBKDF2 derivation")
        hname, password, salt, iterations, length = evs[0]
        check(hname == a[1], "PBES2: PBKDF2 with HMAC-" + a[1])
        check(py_eq(salt, a[0].encode("utf-8") + b"\x00" + p2s), "PBES2: salt = UTF8(alg) || 0x00 || salt input")
        check(py_eq(iterations, p2c) and py_eq(length, a[2]), "PBES2: iteration count from p2c, derived key of the key-wrap size")
        check(py_eq(password, pw), "PBES2: password = the key octets")


def h_rsa_paddings():
    a = sym_choice("alg", [("RSA1_5", "PKCS1v15"), ("RSA-OAEP", "OAEP(mgf1=sha1,hash=sha1,label=None)"),
                           ("RSA-OAEP-256", "OAEP(mgf1=sha256,hash=sha256,label=None)")])
    out = call(jwe.encrypt_compact, {"alg": a[0], "enc": "A128GCM"}, sym_bytes("p"), make_key("rsa", "R", False), [a[0], "A128GCM"])
    check(out.returned, "RSA: encryption returns")
    if not is_native():
        evs = crypto_events(out, "rsa_encrypt")
        check(len(evs) == 1 and evs[0][0] == a[1], a[0] + ": the RSA padding is the one RFC 7518 section 4.2/4.3 names")


def h_gcmkw_fields():
    key, k = oct_key_of_len("k", 16)
    out = call(jwe.encrypt_compact, {"alg": "A128GCMKW", "enc": "A128GCM"}, sym_bytes("p"), key, ["A128GCMKW", "A128GCM"])
    check(out.returned, "GCMKW: encryption returns")
    if not is_native():
        evs = crypto_events(out, "gcm_encrypt")
        check(len(evs) == 2, "GCMKW: one GCM encryption wraps the CEK, one encrypts the content")
        kk, iv, aad, pt = evs[0]
        check(py_eq(kk, k) and len(iv) == 12 and len(aad) == 0, "GCMKW: the CEK is encrypted under the key with a 96-bit IV and no AAD")
    else:
        h = jwe.decrypt_compact(out.value, key, ["A128GCMKW", "A128GCM"]).headers()
        from joserfc.util import urlsafe_b64decode
        check(len(urlsafe_b64decode(h["iv"].encode())) == 12 and len(urlsafe_b64decode(h["tag"].encode())) == 16, "GCMKW: iv (96 bit) and tag (128 bit) header fields")


HARNESSES = [h_accepts_any_spelling, h_concat_kdf_other_info, h_pbes2_inputs, h_rsa_paddings, h_gcmkw_fields, h_compress_is_raw_deflate]


def h_json_aad_is_authenticated():
    """RFC 7516 5.1 step 14: with a JWE AAD (JSON serializations) the AEAD additional data is
    ASCII(BASE64URL(protected) '.' BASE64URL(aad)) -- for the flattened AND the general form."""
    from joserfc.jwe import FlattenedJSONEncryption, GeneralJSONEncryption
    form = sym_choice("form", ["flattened", "general"])
    aad = sym_bytes("aad")
    assume(len(aad) > 0)
    protected = {"enc": "A128GCM"}
    k = sym_bytes("k")
    assume(len(k) == 16)
    key = OctKey.import_key(k)
    obj = (FlattenedJSONEncryption if form == "flattened" else GeneralJSONEncryption)(dict(protected), sym_bytes("p"), None, aad)
    obj.add_recipient({"alg": "A128KW"}, key)
    out = call(jwe.encrypt_json, obj, None, ["A128KW", "A128GCM"])
    check(out.returned, "JSON encryption with AAD returns")
    if out.returned and not is_native():
        evs = crypto_events(out, "gcm_encrypt")
        check(len(evs) == 1, "exactly one content encryption")
        expect = spec_b64u(spec_utf8(spec_jsonc(protected))) + b"." + spec_b64u(aad)
        check(py_eq(evs[0][2], expect), "AEAD additional data = ASCII(BASE64URL(UTF8(protected)) '.' BASE64URL(JWE AAD))")
        check(py_eq(out.value.get("aad"), spec_b64u(aad).decode("ascii")), "the aad member carries BASE64URL(JWE AAD)")


HARNESSES.append(h_json_aad_is_authenticated)
