from pyvc.api import *
from props.jwelib import *
from joserfc import jwe

def d_dir_gcm_roundtrip():
    key, k = oct_key_of_len("k", 16)
    p = sym_bytes("p")
    t = jwe.encrypt_compact({"alg": "dir", "enc": "A128GCM"}, p, key)
    out = call(jwe.decrypt_compact, t, key)
    check(out.returned, "decrypt returns")
    check(py_eq(out.value.plaintext, p), "plaintext")

def d_kw_cbc_roundtrip():
    key, k = oct_key_of_len("k", 16)
    p = sym_bytes("p")
    t = jwe.encrypt_compact({"alg": "A128KW", "enc": "A128CBC-HS256"}, p, key)
    out = call(jwe.decrypt_compact, t, key)
    check(out.returned, "decrypt returns")
    check(py_eq(out.value.plaintext, p), "plaintext")
HARNESSES=[d_dir_gcm_roundtrip, d_kw_cbc_roundtrip]
