"""C02 -- JWE decryption returns only authenticated plaintext."""
from pyvc.api import *
from props.jwelib import *
from joserfc import jwe
from joserfc.jwe import JWERegistry
from joserfc.errors import JoseError, DecodeError

PROPERTY = "C02"
ALGS = ["dir", "A128KW", "A192KW", "A256KW", "A128GCM", "A192GCM", "A256GCM", "A128CBC-HS256", "A192CBC-HS384", "A256CBC-HS512"]


def _header(name, alg, enc):
    """Arbitrary octets that parse to a JSON object with the given alg and enc (any spelling, any other members)."""
    hb = sym_bytes(name)
    assume(spec_json_ok(hb))
    h = spec_json_parse(hb)
    assume(isinstance(h, dict))
    assume(py_eq(h.get("alg"), alg))
    assume(py_eq(h.get("enc"), enc))
    assume("zip" not in h)
    return hb, h


def _token(hb, ek, iv, ct, tag):
    return spec_b64u(hb) + b"." + spec_b64u(ek) + b"." + spec_b64u(iv) + b"." + spec_b64u(ct) + b"." + spec_b64u(tag)


def h_dir_gcm_authentic():
    """Direct encryption + AES-GCM: arbitrary header spelling, IV, ciphertext, tag and encrypted-key octets."""
    ek_ = sym_choice("enc", [("A128GCM", 16), ("A192GCM", 24), ("A256GCM", 32)])
    key, k = oct_key_of_len("k", ek_[1])
    hb, h = _header("hb", "dir", ek_[0])
    ek, iv, ct, tag = sym_bytes("ek"), sym_bytes("iv"), sym_bytes("ct"), sym_bytes("tag")
    out = call(jwe.decrypt_compact, _token(hb, ek, iv, ct, tag), key, ALGS)
    aad = spec_b64u(hb)
    ok = spec_gcm_ok(k, iv, aad, ct, tag)
    if out.returned:
        check(ok, "dir+GCM: returned => the tag is valid for the received protected header octets, IV and ciphertext under the key")
        check(len(iv) * 8 == 96, "dir+GCM: returned => the IV has exactly the size the algorithm requires")
        check(len(ek) == 0, "dir+GCM: returned => the encrypted key is empty (direct mode)")
        check(py_eq(out.value.plaintext, spec_gcm_dec(k, iv, aad, ct, tag)), "dir+GCM: returned => plaintext is the authenticated decryption")
    if not ok:
        check(not out.returned, "dir+GCM: any other header octets / IV / ciphertext / tag is rejected")


def h_kw_gcm_authentic():
    """AES key wrap + AES-GCM: the CEK is the unwrapped encrypted key; wrong key or altered encrypted key is rejected."""
    ak = sym_choice("alg", [("A128KW", 16), ("A256KW", 32)])
    key, k = oct_key_of_len("k", ak[1])
    hb, h = _header("hb", ak[0], "A128GCM")
    ek, iv, ct, tag = sym_bytes("ek"), sym_bytes("iv"), sym_bytes("ct"), sym_bytes("tag")
    out = call(jwe.decrypt_compact, _token(hb, ek, iv, ct, tag), key, ALGS)
    if out.returned:
        check(spec_unwrap_ok(k, ek), "KW+GCM: returned => the encrypted key unwraps under the recipient key")
        cek = spec_unwrap(k, ek)
        check(len(cek) * 8 == 128, "KW+GCM: returned => the CEK has exactly the size the content encryption requires")
        check(spec_gcm_ok(cek, iv, spec_b64u(hb), ct, tag), "KW+GCM: returned => the tag is valid under the recovered CEK for the received header octets")
        check(py_eq(out.value.plaintext, spec_gcm_dec(cek, iv, spec_b64u(hb), ct, tag)), "KW+GCM: returned => plaintext is the authenticated decryption")


def h_dir_cbc_authentic():
    """AES-CBC-HMAC: key split, AL, tag truncation; the full tag is compared before anything is returned."""
    e = sym_choice("enc", [("A128CBC-HS256", 16, "sha256"), ("A192CBC-HS384", 24, "sha384"), ("A256CBC-HS512", 32, "sha512")])
    key, k = oct_key_of_len("k", 2 * e[1])
    hb, h = _header("hb", "dir", e[0])
    iv, ct, tag = sym_bytes("iv"), sym_bytes("ct"), sym_bytes("tag")
    out = call(jwe.decrypt_compact, _token(hb, b"", iv, ct, tag), key, ALGS)
    good = py_eq(tag, spec_cbc_hs_tag(e[2], k[:e[1]], spec_b64u(hb), iv, ct, e[1]))
    if out.returned:
        check(good, "dir+CBC-HS: returned => tag = first half of HMAC(MAC_KEY, AAD || IV || E || AL) over the received header octets")
        check(len(iv) * 8 == 128, "dir+CBC-HS: returned => 128-bit IV")
    if not good:
        check(not out.returned, "dir+CBC-HS: any other tag (truncated, extended, altered) is rejected")


def h_direct_modes_refuse_encrypted_key():
    """A non-empty encrypted key in a direct mode (dir, ECDH-ES direct key agreement) never yields plaintext."""
    mode = sym_choice("mode", ["dir", "ECDH-ES/ec", "ECDH-ES/okp"])
    p = sym_bytes("p")
    if mode == "dir":
        kenc, kb = oct_key_of_len("k", 16)
        kdec = kenc
        hdr = {"alg": "dir", "enc": "A128GCM"}
    elif mode == "ECDH-ES/ec":
        kenc, kdec = make_key("ec", "E", False, "secp256r1"), make_key("ec", "E", True, "secp256r1")
        hdr = {"alg": "ECDH-ES", "enc": "A128GCM"}
    else:
        kenc, kdec = make_key("okp", "E", False, "x25519"), make_key("okp", "E", True, "x25519")
        hdr = {"alg": "ECDH-ES", "enc": "A128GCM"}
    t = jwe.encrypt_compact(hdr, p, kenc, ["dir", "ECDH-ES", "A128GCM"])
    parts = t.split(".")
    ek = sym_bytes("ek")
    assume(len(ek) > 0)
    t2 = parts[0] + "." + spec_b64u(ek).decode("ascii") + "." + parts[2] + "." + parts[3] + "." + parts[4]
    out = call(jwe.decrypt_compact, t2, kdec, ["dir", "ECDH-ES", "A128GCM"])
    check(not out.returned, "a non-empty encrypted key in a direct mode is rejected, never a returned plaintext")


h_direct_modes_refuse_encrypted_key.seeds = [{"mode": 0, "k": b"0123456789abcdef", "p": b"attack", "ek": b"\xde\xad"},
                                             {"mode": 1, "p": b"attack", "ek": b"\xde\xad"}, {"mode": 2, "p": b"attack", "ek": b"\xde\xad"}]
HARNESSES = [h_dir_gcm_authentic, h_kw_gcm_authentic, h_dir_cbc_authentic, h_direct_modes_refuse_encrypted_key]


# ---- seeds for the native witness search: valid tokens and the tamperings named by the statement ----
def _seed(rnd):
    import hmac as _hmac
    import hashlib as _hashlib
    from cryptography.hazmat.primitives.ciphers.aead import AESGCM
    from cryptography.hazmat.primitives.ciphers import Cipher, algorithms, modes
    from cryptography.hazmat.primitives.padding import PKCS7
    from cryptography.hazmat.primitives.keywrap import aes_key_wrap
    from pyvc.spec import ref_B64U
    pt = rnd.choice([b"", b"hello", b"x" * 16, b"\x00\xff" * 9])
    mode = rnd.choice(["gcm", "cbc", "kw"])
    if mode == "gcm":
        i = rnd.randrange(3)
        enc, n = [("A128GCM", 16), ("A192GCM", 24), ("A256GCM", 32)][i]
        k = bytes(rnd.randrange(256) for _ in range(n))
        hb = rnd.choice(['{"alg":"dir","enc":"%s"}', '{"alg": "dir", "enc": "%s"}', '{"enc":"%s","alg":"dir","kid":"1"}']) % enc
        hb = hb.encode()
        iv = bytes(rnd.randrange(256) for _ in range(rnd.choice([12, 12, 12, 16, 8])))
        out = AESGCM(k).encrypt(iv, pt, ref_B64U(hb))
        ct, tag = out[:-16], out[-16:]
        ek = rnd.choice([b"", b"", b"x", b"12345678"])
        tag = rnd.choice([tag, tag, tag[:-1], tag + b"\x00", bytes(16)])
        return {"enc": i, "k": k, "hb": hb, "ek": ek, "iv": iv, "ct": ct, "tag": tag}
    if mode == "kw":
        i = rnd.randrange(2)
        alg, n = [("A128KW", 16), ("A256KW", 32)][i]
        k = bytes(rnd.randrange(256) for _ in range(n))
        cek = bytes(rnd.randrange(256) for _ in range(rnd.choice([16, 16, 32])))
        hb = ('{"alg":"%s","enc":"A128GCM"}' % alg).encode()
        iv = bytes(rnd.randrange(256) for _ in range(12))
        out = AESGCM(cek).encrypt(iv, pt, ref_B64U(hb))
        return {"alg": i, "k": k, "hb": hb, "ek": aes_key_wrap(k, cek), "iv": iv, "ct": out[:-16], "tag": out[-16:]}
    i = rnd.randrange(3)
    enc, n, hn = [("A128CBC-HS256", 16, "sha256"), ("A192CBC-HS384", 24, "sha384"), ("A256CBC-HS512", 32, "sha512")][i]
    k = bytes(rnd.randrange(256) for _ in range(2 * n))
    hb = ('{"alg":"dir","enc":"%s"}' % enc).encode()
    iv = bytes(rnd.randrange(256) for _ in range(16))
    pad = PKCS7(128).padder()
    padded = pad.update(pt) + pad.finalize()
    e = Cipher(algorithms.AES(k[n:]), modes.CBC(iv)).encryptor()
    ct = e.update(padded) + e.finalize()
    aad = ref_B64U(hb)
    full = _hmac.new(k[:n], aad + iv + ct + (len(aad) * 8).to_bytes(8, "big"), getattr(_hashlib, hn)).digest()
    tag = rnd.choice([full[:n], full[:n], full[:8] + bytes(n - 8), full[:n - 1], full, full[:n // 2]])
    return {"enc": i, "k": k, "hb": hb, "iv": iv, "ct": ct, "tag": tag}


for _h in (h_dir_gcm_authentic, h_kw_gcm_authentic, h_dir_cbc_authentic):
    _h.seed_fn = _seed


def h_json_gcm_authentic():
    """Flattened / general JSON, dir + A128GCM, with or without a JWE AAD: plaintext only if the tag is valid over the
    RECEIVED protected-header octets (and AAD), whatever spelling the header JSON has."""
    form = sym_choice("form", ["flattened", "general"])
    key, k = oct_key_of_len("k", 16)
    hb, h = _header("hb", "dir", "A128GCM")
    iv, ct, tag = sym_bytes("iv"), sym_bytes("ct"), sym_bytes("tag")
    value = {"protected": spec_b64u(hb).decode("ascii"), "iv": spec_b64u(iv).decode("ascii"),
             "ciphertext": spec_b64u(ct).decode("ascii"), "tag": spec_b64u(tag).decode("ascii")}
    aad_octets = spec_b64u(hb)
    if sym_choice("with_aad", [False, True]):
        aad = sym_bytes("aad")
        assume(len(aad) > 0)
        value["aad"] = spec_b64u(aad).decode("ascii")
        aad_octets = spec_b64u(hb) + b"." + spec_b64u(aad)
    if form == "general":
        value["recipients"] = [{}]
    out = call(jwe.decrypt_json, value, key, ALGS)
    ok = spec_gcm_ok(k, iv, aad_octets, ct, tag)
    if out.returned:
        check(ok, "JSON dir+GCM: returned => the tag is valid for the received protected header octets (and AAD), IV and ciphertext under the key")
        check(py_eq(out.value.plaintext, spec_gcm_dec(k, iv, aad_octets, ct, tag)), "JSON dir+GCM: returned => plaintext is the authenticated decryption")
    if not ok:
        check(not out.returned, "JSON dir+GCM: any other header octets / AAD / IV / ciphertext / tag is rejected")


HARNESSES.append(h_json_gcm_authentic)


def _seed_json(rnd):
    """valid JSON tokens, and tokens whose tag was made over a re-serialization of a differently spelt header"""
    from cryptography.hazmat.primitives.ciphers.aead import AESGCM
    from pyvc.spec import ref_B64U
    import json as _json
    k = bytes(rnd.randrange(256) for _ in range(16))
    hb = rnd.choice([b'{"alg":"dir","enc":"A128GCM"}', b'{"alg": "dir", "enc": "A128GCM"}', b'{ "alg":"dir",\r\n "enc":"A128GCM" }'])
    with_aad = rnd.randrange(2)
    aad = bytes(rnd.randrange(256) for _ in range(3))
    over = rnd.choice([hb, _json.dumps(_json.loads(hb), separators=(",", ":")).encode()])
    a = ref_B64U(over) + ((b"." + ref_B64U(aad)) if with_aad else b"")
    iv = bytes(rnd.randrange(256) for _ in range(12))
    out = AESGCM(k).encrypt(iv, b"secret", a)
    return {"form": rnd.randrange(2), "k": k, "hb": hb, "iv": iv, "ct": out[:-16], "tag": out[-16:], "with_aad": with_aad, "aad": aad}


h_json_gcm_authentic.seed_fn = _seed_json
