"""C10 -- claims validation accepts exactly the claim sets that satisfy the request.

Modular proof.  Each of check_value / validate_exp / validate_nbf / validate_iat / validate_aud gets a
contract over spec predicates written from the property statement (three-valued where the statement
leaves a case open: exp == now-leeway; value and values both given); the contract is verified
against the real body with the predicates unfolded.  ``validate`` (loop over every claim, essential
claims) is then verified against those *contracts* (predicates opaque) for an arbitrary claims
object, an arbitrary well-typed request with arbitrary claim names, arbitrary now / leeway.
"""
import time
from pyvc.api import *
from pyvc.contracts import contract
from joserfc.rfc7519.registry import JWTClaimsRegistry, ClaimsRegistry
from joserfc.errors import MissingClaimError, InvalidClaimError, ExpiredTokenError, InvalidTokenError, JoseError

PROPERTY = "C10"
Q = "joserfc.rfc7519.registry."
FUNCTIONS_UNDER_CONTRACT = [
    Q + "ClaimsRegistry.__init__", Q + "ClaimsRegistry.check_value", Q + "ClaimsRegistry.validate",
    Q + "JWTClaimsRegistry.__init__", Q + "JWTClaimsRegistry.validate_aud", Q + "JWTClaimsRegistry.validate_exp",
    Q + "JWTClaimsRegistry.validate_nbf", Q + "JWTClaimsRegistry.validate_iat", Q + "_validate_numeric_time",
]


# ---- the oracle (from the property statement) --------------------------------------------------
def number(v):
    """A JSON number (JSON true/false are not numbers)."""
    if isinstance(v, bool):
        return False
    return isinstance(v, (int, float))


def well_typed_option(o):
    """ClaimsOption TypedDict: essential: bool, allow_blank: bool|None, value: str|int|bool, values: list."""
    if not isinstance(o, dict):
        return False
    e = o.get("essential")
    if e is not None and not isinstance(e, bool):
        return False
    b = o.get("allow_blank")
    if b is not None and not isinstance(b, bool):
        return False
    v = o.get("value")
    if v is not None and not isinstance(v, (str, int, bool)):
        return False
    if "value" in o and v is None:
        return False
    vs = o.get("values")
    if vs is not None and not isinstance(vs, list):
        return False
    if "values" in o and vs is None:
        return False
    return True


def has_request(o):
    return o is not None and len(o) > 0


@specfn
def req_must_accept(o, v):
    """The claim satisfies its request (value / values / blank rule) -- or carries none."""
    if not has_request(o):
        return True
    if v == "" and not o.get("allow_blank"):
        return False
    if "value" in o and v != o["value"]:
        return False
    if "values" in o and v not in o["values"]:
        return False
    return True


@specfn
def req_must_reject(o, v):
    if not has_request(o):
        return False
    if v == "" and not o.get("allow_blank"):
        return True
    if "value" in o and "values" in o:
        # both given: rejected for sure only when neither is satisfied (otherwise left open)
        return v != o["value"] and v not in o["values"]
    if "value" in o:
        return v != o["value"]
    if "values" in o:
        return v not in o["values"]
    return False


def aud_tokens(v):
    if isinstance(v, list):
        return v
    return [v]


def aud_verdict(o, v):
    """'accept' | 'reject' | 'open' for the aud claim."""
    if not has_request(o):
        return "accept"
    if "value" in o and "values" in o:
        return "open"
    if "values" in o:
        req = o["values"]
    elif "value" in o:
        req = [o["value"]]
    else:
        return "accept"
    toks = aud_tokens(v)
    if exists_elem(req, lambda a: a in toks):
        return "accept"
    return "reject"


@specfn
def aud_must_reject(o, v):
    return aud_verdict(o, v) == "reject"


@specfn
def aud_must_accept(o, v):
    return aud_verdict(o, v) == "accept"


@specfn
def exp_must_reject(o, v, now, leeway):
    if not number(v):
        return True
    if v < now - leeway:
        return True
    return req_must_reject(o, v)


@specfn
def exp_must_accept(o, v, now, leeway):
    return number(v) and v > now - leeway and req_must_accept(o, v)


@specfn
def nbf_must_reject(o, v, now, leeway):
    if not number(v):
        return True
    if v > now + leeway:
        return True
    return req_must_reject(o, v)


@specfn
def nbf_must_accept(o, v, now, leeway):
    return number(v) and v <= now + leeway and req_must_accept(o, v)


@specfn
def is_expired(v, now, leeway):
    return isinstance(v, (int, float)) and v < now - leeway


@specfn
def not_yet_valid(v, now, leeway):
    return isinstance(v, (int, float)) and v > now + leeway


# ---- contracts ---------------------------------------------------------------------------------
C_CHECK = contract(
    Q + "ClaimsRegistry.check_value",
    view=lambda self, claim_name, value: {"o": self.options.get(claim_name), "v": value},
    returns=lambda p: not req_must_reject(p["o"], p["v"]),
    raises={InvalidClaimError: lambda p: has_request(p["o"]) and not req_must_accept(p["o"], p["v"])})

C_EXP = contract(
    Q + "JWTClaimsRegistry.validate_exp",
    view=lambda self, value: {"o": self.options.get("exp"), "v": value, "now": self.now, "leeway": self.leeway},
    returns=lambda p: not exp_must_reject(p["o"], p["v"], p["now"], p["leeway"]),
    raises={InvalidClaimError: lambda p: not exp_must_accept(p["o"], p["v"], p["now"], p["leeway"]),
            ExpiredTokenError: lambda p: is_expired(p["v"], p["now"], p["leeway"])
            and not exp_must_accept(p["o"], p["v"], p["now"], p["leeway"])})

C_NBF = contract(
    Q + "JWTClaimsRegistry.validate_nbf",
    view=lambda self, value: {"o": self.options.get("nbf"), "v": value, "now": self.now, "leeway": self.leeway},
    returns=lambda p: not nbf_must_reject(p["o"], p["v"], p["now"], p["leeway"]),
    raises={InvalidClaimError: lambda p: not nbf_must_accept(p["o"], p["v"], p["now"], p["leeway"]),
            InvalidTokenError: lambda p: not_yet_valid(p["v"], p["now"], p["leeway"])
            and not nbf_must_accept(p["o"], p["v"], p["now"], p["leeway"])})

C_IAT = contract(
    Q + "JWTClaimsRegistry.validate_iat",
    view=lambda self, value: {"o": self.options.get("iat"), "v": value, "now": self.now, "leeway": self.leeway},
    returns=lambda p: not nbf_must_reject(p["o"], p["v"], p["now"], p["leeway"]),
    raises={InvalidClaimError: lambda p: not nbf_must_accept(p["o"], p["v"], p["now"], p["leeway"]),
            InvalidTokenError: lambda p: not_yet_valid(p["v"], p["now"], p["leeway"])
            and not nbf_must_accept(p["o"], p["v"], p["now"], p["leeway"])})

C_AUD = contract(
    Q + "JWTClaimsRegistry.validate_aud",
    view=lambda self, value: {"o": self.options.get("aud"), "v": value},
    returns=lambda p: not aud_must_reject(p["o"], p["v"]),
    raises={InvalidClaimError: lambda p: not aud_must_accept(p["o"], p["v"])})

CLAUSE_CONTRACTS = [C_CHECK.qualname, C_EXP.qualname, C_NBF.qualname, C_IAT.qualname, C_AUD.qualname]


# ---- contract verification against the real bodies ---------------------------------------------
def one_option_registry(name):
    """A registry whose request for claim `name` is an arbitrary well-typed option, or absent."""
    now = sym_int("now")
    leeway = sym_int("leeway")
    o = sym_json("o")
    assume(o is None or well_typed_option(o))
    if o is None:
        reg = JWTClaimsRegistry(now, leeway)
    else:
        reg = JWTClaimsRegistry(now, leeway, **{name: o})
    return reg


def h_contract_validate_exp():
    reg = one_option_registry("exp")
    value = sym_json("value")
    out = call(reg.validate_exp, value)
    check_contract(C_EXP, C_EXP.view(reg, value), out, "validate_exp")


def h_contract_validate_nbf():
    reg = one_option_registry("nbf")
    value = sym_json("value")
    out = call(reg.validate_nbf, value)
    check_contract(C_NBF, C_NBF.view(reg, value), out, "validate_nbf")


def h_contract_validate_iat():
    reg = one_option_registry("iat")
    value = sym_json("value")
    out = call(reg.validate_iat, value)
    check_contract(C_IAT, C_IAT.view(reg, value), out, "validate_iat")


def h_contract_validate_aud():
    reg = one_option_registry("aud")
    value = sym_json("value")
    out = call(reg.validate_aud, value)
    check_contract(C_AUD, C_AUD.view(reg, value), out, "validate_aud")


def h_contract_check_value():
    name = sym_str("name")
    assume(name != "now" and name != "leeway")
    now = sym_int("now")
    leeway = sym_int("leeway")
    o = sym_json("o")
    assume(o is None or well_typed_option(o))
    options = sym_dict("options")
    assume(py_eq(options.get(name), o))
    assume("now" not in options and "leeway" not in options)
    reg = JWTClaimsRegistry(now, leeway)
    reg.options = options
    value = sym_json("value")
    out = call(reg.check_value, name, value)
    check_contract(C_CHECK, C_CHECK.view(reg, name, value), out, "check_value")


# ---- validate against the clause contracts -----------------------------------------------------
def setup():
    now = sym_int("now")
    leeway = sym_int("leeway")
    options = sym_dict("options")
    assume(forall_keys(options, lambda k: well_typed_option(options[k])))
    assume("now" not in options and "leeway" not in options)
    claims = sym_dict("claims")
    return now, leeway, options, claims


def essential_ok(options, claims):
    return forall_keys(options, lambda k: implies(truthy(options[k].get("essential")), not is_none(claims.get(k))))


def clause_rejects(k, v, o, now, leeway):
    """must-reject verdict of the clause for claim k (predicates kept opaque)."""
    if k == "exp":
        return opaque(exp_must_reject, o, v, now, leeway)
    if k == "nbf" or k == "iat":
        return opaque(nbf_must_reject, o, v, now, leeway)
    if k == "aud":
        return opaque(aud_must_reject, o, v)
    # a claim without a request (no option, or an empty one) is never rejected
    return has_request(o) and opaque(req_must_reject, o, v)


def clause_accepts(k, v, o, now, leeway):
    if k == "exp":
        return opaque(exp_must_accept, o, v, now, leeway)
    if k == "nbf" or k == "iat":
        return opaque(nbf_must_accept, o, v, now, leeway)
    if k == "aud":
        return opaque(aud_must_accept, o, v)
    return (not has_request(o)) or opaque(req_must_accept, o, v)


def h_validate_sound():
    """validate returns  ==>  every essential claim present and not null, no clause must-reject."""
    now, leeway, options, claims = setup()
    reg = JWTClaimsRegistry(now, leeway, **options)
    out = call(reg.validate, claims)
    if out.returned:
        cover("returns")
        e = sym_str("e")        # an arbitrary requested claim name
        if e in options and truthy(options[e].get("essential")):
            check(not is_none(claims.get(e)), "accepted => every essential claim is present and not null")
        k = sym_str("k")        # an arbitrary claim of the token
        if k in claims:
            check(not clause_rejects(k, claims[k], options.get(k), now, leeway),
                  "accepted => no claim violates its request or the exp/nbf/iat rules")


def h_validate_complete():
    """essential claims present and every clause must-accept  ==>  validate returns."""
    now, leeway, options, claims = setup()
    reg = JWTClaimsRegistry(now, leeway, **options)
    out = call(reg.validate, claims)
    if out.raised(MissingClaimError):
        cover("raises-missing")
        check(not essential_ok(options, claims), "rejected with MissingClaimError => an essential claim is absent or null")
    elif not out.returned:
        cover("raises")
        check(not forall_keys(claims, lambda k: clause_accepts(k, claims[k], options.get(k), now, leeway)),
              "rejected otherwise => some claim does not satisfy its request / type / time rule")


def h_validate_error_classes():
    now, leeway, options, claims = setup()
    reg = JWTClaimsRegistry(now, leeway, **options)
    out = call(reg.validate, claims)
    check(out.raised_only(MissingClaimError, InvalidClaimError, ExpiredTokenError, InvalidTokenError),
          "only missing / invalid / expired / not-yet-valid claim errors are raised")
    if out.raised(MissingClaimError):
        check(not essential_ok(options, claims), "MissingClaimError => an essential claim is absent or null")
    if out.raised(ExpiredTokenError):
        check("exp" in claims and opaque(is_expired, claims.get("exp"), now, leeway),
              "ExpiredTokenError => exp lies before now - leeway")
    if out.raised(InvalidTokenError):
        check(("nbf" in claims and opaque(not_yet_valid, claims.get("nbf"), now, leeway))
              or ("iat" in claims and opaque(not_yet_valid, claims.get("iat"), now, leeway)),
              "InvalidTokenError => nbf or iat lies after now + leeway")


def h_validate_frame():
    now, leeway, options, claims = setup()
    reg = JWTClaimsRegistry(now, leeway, **options)
    before = snapshot(claims)
    call(reg.validate, claims)
    check(unchanged(claims, before), "validate does not modify the claims")


for _h in (h_validate_sound, h_validate_complete, h_validate_error_classes, h_validate_frame):
    _h.use_contracts = CLAUSE_CONTRACTS


def h_default_now():
    t0 = time.time()
    reg = JWTClaimsRegistry()
    t1 = time.time()
    check(int(t0) <= reg.now and reg.now <= int(t1), "with no explicit now the current time is used")
    check(reg.leeway == 0, "default leeway is 0")


HARNESSES = [h_contract_check_value, h_contract_validate_exp, h_contract_validate_nbf, h_contract_validate_iat,
             h_contract_validate_aud, h_validate_sound, h_validate_complete, h_validate_error_classes,
             h_validate_frame, h_default_now]
