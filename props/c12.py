"""C12 -- public-facing outputs never contain private key material."""
from pyvc.api import *
from props.jwelib import *
from joserfc.jwk import OctKey, RSAKey, ECKey, OKPKey, KeySet
from joserfc import jwe

PROPERTY = "C12"
PRIVATE_NAMES = ["d", "p", "q", "dp", "dq", "qi", "oth", "k"]


def _mk(kind, private, params=None):
    if kind == "oct":
        return OctKey.import_key(sym_bytes("k"), params)
    if kind == "RSA":
        return make_key("rsa", "K", private, None, params)
    if kind == "EC":
        return make_key("ec", "K", private, sym_choice("crv", ["secp256r1", "secp521r1"]), params)
    return make_key("okp", "K", private, sym_choice("crv", ["ed25519", "x25519"]), params)


def h_public_jwk_has_no_private_members():
    kind = sym_choice("kind", ["oct", "RSA", "EC", "OKP"])
    key = _mk(kind, True, {"kid": sym_str("kid")} if sym_choice("extra", [False, True]) else None)
    out = call(key.as_dict, False)
    check(out.returned, "public export returns")
    for n in PRIVATE_NAMES:
        check(n not in out.value, "a JWK exported as public contains no '" + n + "' member")


def h_public_key_set_has_no_private_members():
    k1 = _mk(sym_choice("kind1", ["oct", "RSA", "EC", "OKP"]), True)
    ks = KeySet([k1])
    out = call(ks.as_dict, False)
    check(out.returned, "public key-set export returns")
    d = out.value["keys"][0]
    for n in PRIVATE_NAMES:
        check(n not in d, "a key set exported as public contains no '" + n + "' member")


def h_private_export_of_public_key_is_an_error():
    kind = sym_choice("kind", ["RSA", "EC", "OKP"])
    key = _mk(kind, False)
    out = call(key.as_dict, True)
    check(out.raised(ValueError), "requesting a private export from a public-only key is an error, not a silent public export")


def h_public_pem_uses_the_public_object():
    kind = sym_choice("kind", ["RSA", "EC", "OKP"])
    key = _mk(kind, True)
    enc = sym_choice("encoding", ["PEM", "DER"])
    out = call(key.as_bytes, enc, False)
    check(out.returned, "public PEM/DER export returns")
    if not is_native():
        check(len(crypto_events(out, "private_bytes")) == 0 and len(crypto_events(out, "public_bytes")) == 1,
              "a public PEM/DER export serialises the public key object only")
    else:
        check(b"PRIVATE" not in out.value, "a public PEM export is not a private key")


def h_epk_is_public():
    kc = sym_choice("curve", [("ec", "secp256r1"), ("okp", "x25519")])
    pub = make_key(kc[0], "E", False, kc[1])
    prv = make_key(kc[0], "E", True, kc[1])
    t = jwe.encrypt_compact({"alg": "ECDH-ES", "enc": "A128GCM"}, sym_bytes("p"), pub)
    back = call(jwe.decrypt_compact, t, prv)
    if back.returned:
        h = back.value.headers()
        for n in PRIVATE_NAMES:
            check(n not in h["epk"], "the ephemeral public key placed in the JWE header has no '" + n + "' member")


HARNESSES = [h_public_jwk_has_no_private_members, h_public_key_set_has_no_private_members,
             h_private_export_of_public_key_is_an_error, h_public_pem_uses_the_public_object, h_epk_is_public]


def h_public_export_strips_private_members_carried_by_the_jwk_view():
    """The JWK view of a key whose native object is public can still carry private member names (extra parameters,
    or CRT members of an RSA JWK given without d): a public export strips them all the same."""
    kn = sym_choice("case", [("RSA", "d"), ("RSA", "p"), ("RSA", "dq"), ("EC", "d"), ("OKP", "d")])
    key = _mk(kn[0], False, {kn[1]: sym_str("v")})
    out = call(key.as_dict, False)
    if out.returned:
        for n in PRIVATE_NAMES:
            check(n not in out.value, "a public export contains no '" + n + "' member even when the key's JWK view carries one")
    ks = call(KeySet, [key])
    if ks.returned:
        out2 = call(ks.value.as_dict, False)
        if out2.returned:
            for n in PRIVATE_NAMES:
                check(n not in out2.value["keys"][0], "a public key-set export contains no '" + n + "' member even when a key's JWK view carries one")


HARNESSES.append(h_public_export_strips_private_members_carried_by_the_jwk_view)
