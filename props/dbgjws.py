from pyvc.api import *
from joserfc import jws
from joserfc.jwk import OctKey
from joserfc.errors import *

def d_serialize():
    k = sym_bytes("k")
    p = sym_bytes("p")
    key = OctKey.import_key(k)
    out = call(jws.serialize_compact, {"alg": "HS256"}, p, key)
    check(out.returned, "serialize returns")
    hs = spec_b64u(spec_utf8(spec_jsonc({"alg": "HS256"})))
    si = hs + b"." + spec_b64u(p)
    check(out.value == (si + b"." + spec_b64u(spec_hmac("sha256", k, si))).decode("utf-8"), "layout")

def d_roundtrip():
    k = sym_bytes("k")
    p = sym_bytes("p")
    key = OctKey.import_key(k)
    t = jws.serialize_compact({"alg": "HS256"}, p, key)
    out = call(jws.deserialize_compact, t, key)
    check(out.returned, "deserialize returns")
    check(out.value.payload == p, "payload")
HARNESSES=[d_serialize, d_roundtrip]
