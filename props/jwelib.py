"""Shared builders for the JWE harnesses."""
from pyvc.api import *
from joserfc import jwe
from joserfc.jwk import OctKey
from joserfc.errors import *

ENC_GCM = {"A128GCM": 16, "A192GCM": 24, "A256GCM": 32}
ENC_CBC = {"A128CBC-HS256": 32, "A192CBC-HS384": 48, "A256CBC-HS512": 64}
ALL_ENC = ["A128CBC-HS256", "A192CBC-HS384", "A256CBC-HS512", "A128GCM", "A192GCM", "A256GCM"]


def oct_key_of_len(name, n, params=None):
    k = sym_bytes(name)
    assume(len(k) == n)
    return OctKey.import_key(k, params), k
