"""C07 -- JWS octets on the wire are those of RFC 7515/7518/8037/8812/7797.

The "independent implementation" of the statement is the RFC-side specification in pyvc (reference.SIG_SPEC: the
algorithm table of RFC 7518 section 3 / RFC 8037 / RFC 8812 -- hash, padding, MGF1, salt length, R||S layout -- and
the spec functions B64U / JSON / UTF8); natively it is pyvc/reference.py on raw `cryptography` primitives.  Both
directions are obligations over the real serializers:
  joserfc -> peer : every token joserfc emits has the RFC layout and its signature satisfies the RFC predicate
  peer -> joserfc : every token whose signature satisfies the RFC predicate, under ANY spelling of the protected
                    header JSON, is accepted and yields the same payload and header.
The layout/equality obligations of C03 (HMAC) and the per-algorithm refinements of C01 are part of the argument and
are re-run here.
"""
from pyvc.api import *
from props.jwslib import *
from joserfc import jws
from joserfc.rfc7797 import serialize_compact as s7797_compact, deserialize_compact as d7797_compact
from props import c01 as _c01, c03 as _c03

PROPERTY = "C07"
ALL = ["HS256", "HS384", "HS512", "RS256", "RS384", "RS512", "PS256", "PS384", "PS512", "ES256", "ES384", "ES512", "ES256K", "EdDSA"]
KEYS = [("HS256", "oct", None, 0), ("HS512", "oct", None, 0), ("RS256", "rsa", None, 0), ("RS512", "rsa", None, 0), ("PS256", "rsa", None, 0),
        ("PS384", "rsa", None, 0), ("ES256", "ec", "secp256r1", 32), ("ES384", "ec", "secp384r1", 48), ("ES512", "ec", "secp521r1", 66),
        ("ES256K", "ec", "secp256k1", 32), ("EdDSA", "okp", "ed25519", 0), ("EdDSA", "okp", "ed448", 0)]


def _key(spec, private):
    alg, kind, crv, n = spec
    if kind == "oct":
        return oct_key("k")[0]
    return make_key(kind, "K", private, crv)


def h_emitted_compact_token_is_rfc():
    """Tokens joserfc signs: RFC layout, and the signature verifies under the RFC's algorithm parameters with the public key."""
    spec = sym_choice("alg", KEYS)
    alg = spec[0]
    p = sym_bytes("p")
    header = {"alg": alg}
    if sym_choice("with_kid", [False, True]):
        header["kid"] = sym_str("kid")
    expect = dict(header)
    out = call(jws.serialize_compact, header, p, _key(spec, True), ALL)
    check(out.returned, "signing returns for a suitable private key")
    if not out.returned:
        return
    parts = out.value.split(".")
    check(len(parts) == 3, "three segments")
    hs = spec_b64u(spec_utf8(spec_jsonc(expect)))
    check(py_eq(parts[0].encode("ascii"), hs), "first segment = BASE64URL(UTF8(compact JSON of the header))")
    check(py_eq(parts[1].encode("ascii"), spec_b64u(p)), "second segment = BASE64URL(payload)")
    sig = spec_b64u_decode(parts[2])
    si = hs + b"." + spec_b64u(p)
    check(spec_verify(alg, _key(spec, False), si, sig),
          "the signature verifies over ASCII(B64U(header) '.' B64U(payload)) under the RFC's parameters for the algorithm with the public key only")
    if spec[3]:
        check(len(sig) == 2 * spec[3], "ECDSA signature is the fixed-length big-endian R || S for the curve")


def _any_spelling(alg):
    hb = sym_bytes("hb")
    assume(spec_json_ok(hb))
    h = spec_json_parse(hb)
    assume(isinstance(h, dict))
    assume(py_eq(h.get("alg"), alg))
    assume(forall_keys(h, lambda k: k == "alg" or k == "typ" or k == "kid"))
    assume("typ" not in h or isinstance(h["typ"], str))
    assume("kid" not in h or isinstance(h["kid"], str))
    return hb, h


def h_reference_compact_token_is_accepted():
    """Tokens signed by the peer -- any spelling of the header JSON -- verify in joserfc and yield the same payload and header."""
    spec = sym_choice("alg", KEYS)
    alg = spec[0]
    key = _key(spec, sym_choice("verifier_holds_private", [False, True]))
    hb, h = _any_spelling(alg)
    p, s = sym_bytes("p"), sym_bytes("s")
    assume(spec_verify(alg, key, signing_input(hb, p), s))
    out = call(jws.deserialize_compact, compact_token(hb, p, s), key, ALL)
    check(out.returned, "a token whose signature is valid per the RFC over the received segments is accepted, whatever the header spelling")
    if out.returned:
        check(py_eq(out.value.payload, p), "and yields the signed payload")
        check(same_json(out.value.protected, h), "and the signed header members")


def h_reference_flattened_token_is_accepted():
    spec = sym_choice("alg", [KEYS[0], KEYS[2], KEYS[4], KEYS[6], KEYS[10]])
    alg = spec[0]
    key = _key(spec, False)
    hb, h = _any_spelling(alg)
    p, s = sym_bytes("p"), sym_bytes("s")
    assume(spec_verify(alg, key, signing_input(hb, p), s))
    value = {"payload": spec_b64u(p).decode("ascii"), "protected": spec_b64u(hb).decode("ascii"), "signature": spec_b64u(s).decode("ascii")}
    out = call(jws.deserialize_json, value, key, ALL)
    check(out.returned, "flattened JSON: a token valid per the RFC is accepted, whatever the header spelling")
    if out.returned:
        check(py_eq(out.value.payload, p), "flattened JSON: yields the signed payload")


def h_7797_unencoded_signing_input():
    """b64=false: the signing input is ASCII(B64U(header)) '.' payload with the payload unencoded, both directions."""
    spec = sym_choice("alg", [KEYS[0], KEYS[2], KEYS[6]])
    alg = spec[0]
    p = sym_bytes("p")
    assume(ascii_only(p))
    assume(py_urlsafe_match(p))
    header = {"alg": alg, "b64": False, "crit": ["b64"]}
    out = call(s7797_compact, dict(header), p, _key(spec, True), ALL)
    check(out.returned, "RFC 7797 signing returns")
    if not out.returned:
        return
    hs = spec_b64u(spec_utf8(spec_jsonc(header)))
    prefix = (hs + b"." + p + b".").decode("ascii")
    check(out.value.startswith(prefix), "RFC 7797: token = BASE64URL(UTF8(JSON(header))) '.' payload-unencoded '.' ...")
    sig = spec_b64u_decode(out.value[len(prefix):])
    check(spec_verify(alg, _key(spec, False), hs + b"." + p, sig), "RFC 7797: signature is over ASCII(B64U(header)) '.' payload (unencoded)")


HARNESSES = [h_emitted_compact_token_is_rfc, h_reference_compact_token_is_accepted, h_reference_flattened_token_is_accepted,
             h_7797_unencoded_signing_input]
# the refinement lemmas X.verify <=> Valid(X) and X.sign => Valid(X) (C01/C03) and the HMAC layout equalities (C03) carry the argument
HARNESSES += [_c01.h_verify_rsa, _c01.h_verify_ec, _c01.h_verify_eddsa, _c01.h_verify_hmac,
              _c03.h_sign_verify_rsa, _c03.h_sign_verify_ec, _c03.h_sign_verify_eddsa, _c03.h_sign_verify_hmac, _c03.h_ecdsa_int_codec,
              _c03.h_compact_roundtrip, _c03.h_flattened_roundtrip]


# ---- seeds for the native witness search: correctly signed tokens with foreign header spellings ----
def _seed_foreign_spelling(n_keys):
    def gen(rnd):
        from pyvc import reference
        from pyvc.spec import ref_B64U
        ki = rnd.randrange(n_keys)
        spec = KEYS[ki] if n_keys == len(KEYS) else [KEYS[0], KEYS[2], KEYS[4], KEYS[6], KEYS[10]][ki]
        alg = spec[0]
        spelling = rnd.choice(['{"alg": "%s"}', '{ "alg":"%s" }', '{"typ":"JWT",\r\n "alg":"%s"}', '{"alg":"%s","kid":"\\u0061"}', '{"kid":"a\\/b","alg":"%s"}',
                               '{"alg":"%s"}'])
        hb = (spelling % alg).encode()
        p = bytes(rnd.randrange(256) for _ in range(rnd.choice([0, 4])))
        k = bytes(rnd.randrange(256) for _ in range(32))
        si = ref_B64U(hb) + b"." + ref_B64U(p)
        if spec[1] == "oct":
            s = reference.sign(alg, k, si)
        else:
            s = reference.sign(alg, reference.raw_key(spec[1], "K", spec[2], 2048), si)
        return {"alg": ki, "hb": hb, "p": p, "s": s, "k": k, "verifier_holds_private": rnd.randrange(2)}
    return gen


h_reference_compact_token_is_accepted.seed_fn = _seed_foreign_spelling(len(KEYS))
h_reference_flattened_token_is_accepted.seed_fn = _seed_foreign_spelling(5)
