"""C09 -- JWT encode/decode is faithful and yields only JSON-object claims."""
from pyvc.api import *
from props.jwslib import *
from joserfc import jwt, jws, jwe
from joserfc.jwk import OctKey, KeySet
from joserfc.jwe import JWERegistry
from joserfc.errors import InvalidPayloadError, JoseError

PROPERTY = "C09"
HEADERS = [{"alg": "HS256"}, {"alg": "HS256", "typ": "at+jwt"}, {"alg": "HS256", "typ": "JWT", "kid": "k-1"}, {"alg": "HS384", "cty": "x"}]
JWE_HEADERS = [{"alg": "dir", "enc": "A128GCM"}, {"alg": "dir", "enc": "A128GCM", "typ": "at+jwt"}, {"alg": "A128KW", "enc": "A128GCM", "kid": "k-1"}]


def _expected_header(header):
    e = {"typ": "JWT"}
    for k in header:
        e[k] = header[k]
    return e


def _roundtrip(header, claims, expected, key, registry, must_encode=False):
    before = snapshot(header)
    enc = call(jwt.encode, header, claims, key, None, registry)
    check(unchanged(header, before), "encoding does not alter the caller's header")
    if must_encode:
        check(enc.returned, "JSON-serializable claims (datetime exp/nbf/iat included) are encoded")
    if not enc.returned:
        return          # claims that are not JSON-serializable (or not UTF-8 encodable): nothing was encoded
    dec = call(jwt.decode, enc.value, key, None, registry)
    check(dec.returned, "decoding an encoded JWT with the matching key succeeds")
    if dec.returned:
        check(same_json(dec.value.claims, expected), "decoded claims equal, as JSON, the claims that were encoded")
        check(same_json(dec.value.header, _expected_header(header)), "decoded header equals the given one plus a default typ of JWT that an explicit typ overrides")


def h_jws_roundtrip_any_claims():
    header = sym_choice("header", HEADERS)
    claims = sym_dict("claims")
    key = OctKey.import_key(sym_bytes("k"))
    _roundtrip(dict(header), claims, dict(claims), key, None)


def h_jwe_roundtrip_any_claims():
    header = sym_choice("header", JWE_HEADERS)
    claims = sym_dict("claims")
    k = sym_bytes("k")
    assume(len(k) == 16)
    key = OctKey.import_key(k)
    _roundtrip(dict(header), claims, dict(claims), key, JWERegistry())


def _date(name):
    """an int NumericDate, a naive datetime or an aware one (any fixed offset), or absent"""
    kind = sym_choice(name + "_kind", ["absent", "int", "naive", "aware"])
    if kind == "absent":
        return False, None, None
    w = sym_int(name + "_wall")
    assume(w >= 0 and w <= 9999999999)
    if kind == "int":
        return True, w, w
    if kind == "naive":
        return True, mk_datetime(w), w
    off = sym_int(name + "_off")
    assume(off > -86400 and off < 86400)
    return True, mk_datetime(w, off), w - off


def h_datetime_claims_become_numeric_dates():
    transport = sym_choice("transport", ["jws", "jwe"])
    sub = sym_str("sub")
    assume(ascii_only(sub))
    claims = {"sub": sub, "n": sym_int("n")}
    expected = {"sub": sub, "n": claims["n"]}
    which = sym_choice("which", [["exp"], ["nbf"], ["iat"], ["exp", "nbf", "iat"]])
    for name in which:
        present, given, numeric = _date(name if len(which) == 1 else "d")
        if present:
            claims[name] = given
            expected[name] = numeric
    k = sym_bytes("k")
    if transport == "jws":
        _roundtrip({"alg": "HS256"}, claims, expected, OctKey.import_key(k), None, True)
    else:
        assume(len(k) == 16)
        _roundtrip({"alg": "dir", "enc": "A128GCM"}, claims, expected, OctKey.import_key(k), JWERegistry(), True)


def h_key_set_kid_in_header():
    kid1, kid2 = sym_str("kid1"), sym_str("kid2")
    assume(kid1 != kid2)
    k1 = OctKey.import_key(sym_bytes("k1"), {"kid": kid1})
    k2 = OctKey.import_key(sym_bytes("k2"), {"kid": kid2})
    ks = KeySet([k1, k2])
    header = {"alg": "HS256"}
    claims = {"sub": sym_str("sub")}
    enc = call(jwt.encode, header, claims, ks)
    check(py_eq(header, {"alg": "HS256"}), "encoding with a key set does not alter the caller's header")
    if not enc.returned:
        return
    dec = call(jwt.decode, enc.value, ks)
    check(dec.returned, "decoding with the same key set succeeds")
    if dec.returned:
        h = dec.value.header
        check(py_eq(h.get("kid"), kid1) or py_eq(h.get("kid"), kid2), "the decoded header carries the kid of the key picked from the set")
        check(py_eq(h.get("typ"), "JWT") and py_eq(h.get("alg"), "HS256") and len(h) == 3, "and otherwise equals the given header plus typ")
        check(same_json(dec.value.claims, claims), "claims survive the key-set transport")


def _object_payload(p):
    return spec_json_ok(p) and isinstance(spec_json_parse(p), dict)


def h_jws_decode_only_json_objects():
    """Any correctly signed payload octets: decode returns iff they are a JSON object."""
    p = sym_bytes("p")
    key = OctKey.import_key(sym_bytes("k"))
    t = jws.serialize_compact({"alg": "HS256"}, p, key)
    out = call(jwt.decode, t, key)
    if out.returned:
        check(spec_json_ok(p), "decode returned => the payload is JSON")
        check(_object_payload(p), "decode returned => the payload is a JSON object")
        check(same_json(out.value.claims, spec_json_parse(p)), "decode returned => claims are the parsed payload")
    else:
        check(out.raised(JoseError), "a refused payload is reported with a library error")
        check(implies(not _object_payload(p), out.raised(InvalidPayloadError)), "a payload that is not JSON, or JSON that is not an object, is reported as an invalid-payload error")
    check(implies(not _object_payload(p), not out.returned), "a payload that is not a JSON object never yields claims")


def h_jwe_decode_only_json_objects():
    p = sym_bytes("p")
    k = sym_bytes("k")
    assume(len(k) == 16)
    key = OctKey.import_key(k)
    reg = JWERegistry()
    t = jwe.encrypt_compact({"alg": "dir", "enc": "A128GCM"}, p, key)
    out = call(jwt.decode, t, key, None, reg)
    if out.returned:
        check(_object_payload(p), "JWE transport: decode returned => the plaintext is a JSON object")
        check(same_json(out.value.claims, spec_json_parse(p)), "JWE transport: claims are the parsed plaintext")
    check(implies(not _object_payload(p), out.raised(InvalidPayloadError)), "JWE transport: a plaintext that is not a JSON object is an invalid-payload error")


def h_decode_returns_only_after_integrity():
    """Arbitrary header spelling / payload / signature octets: claims come back only for a valid MAC."""
    hb = sym_bytes("hb")
    assume(spec_json_ok(hb))
    h = spec_json_parse(hb)
    assume(isinstance(h, dict))
    assume(py_eq(h.get("alg"), "HS256"))
    p, s = sym_bytes("p"), sym_bytes("s")
    k = sym_bytes("k")
    key = OctKey.import_key(k)
    out = call(jwt.decode, compact_token(hb, p, s), key)
    if out.returned:
        check(py_eq(s, spec_hmac("sha256", k, spec_b64u(hb) + b"." + spec_b64u(p))), "decode returned => the MAC over the received octets verified first")
        check(_object_payload(p), "decode returned => the payload is a JSON object")


for _h in (h_jws_decode_only_json_objects, h_jwe_decode_only_json_objects):
    _h.seeds = [{"p": b"[1,2]", "k": b"0123456789abcdef"}, {"p": b'"str"', "k": b"0123456789abcdef"}, {"p": b"17", "k": b"0123456789abcdef"},
                {"p": b"null", "k": b"0123456789abcdef"}, {"p": b"true", "k": b"0123456789abcdef"}, {"p": b"{}", "k": b"0123456789abcdef"},
                {"p": b"not json", "k": b"0123456789abcdef"}, {"p": b"1.5", "k": b"0123456789abcdef"}, {"p": b"\xff", "k": b"0123456789abcdef"}]


def _seed_dates(rnd):
    d = {"transport": rnd.randrange(2), "sub": "s", "k": bytes(rnd.randrange(256) for _ in range(16))}
    d["which"] = rnd.randrange(4)
    for name in ["exp", "nbf", "iat", "d"]:
        d[name + "_kind"] = rnd.randrange(4)
        d[name + "_wall"] = rnd.choice([0, 1, 86399, 1700000000, 9999999999, rnd.randrange(4000000000)])
        d[name + "_off"] = rnd.choice([0, 3600, -3600, 7200, 19800, -43200, 86399, -86399, 1])
    return d


h_datetime_claims_become_numeric_dates.seed_fn = _seed_dates
HARNESSES = [h_jws_roundtrip_any_claims, h_jwe_roundtrip_any_claims, h_datetime_claims_become_numeric_dates, h_key_set_kid_in_header,
             h_jws_decode_only_json_objects, h_jwe_decode_only_json_objects, h_decode_returns_only_after_integrity]
