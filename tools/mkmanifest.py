#!/usr/bin/env python3
"""Regenerate MANIFEST.json from tools/claims.json (per-property claim text) + properties.jsonl."""
import json, os
ROOT = os.path.dirname(os.path.dirname(os.path.abspath(__file__)))
props = [json.loads(l)["id"] for l in open(os.path.join(ROOT, "properties.jsonl"))]
claims = json.load(open(os.path.join(ROOT, "tools", "claims.json")))
checks = []
na = []
for p in props:
    c = claims.get(p)
    if c and c.get("claimed"):
        checks.append({
            "property_id": p,
            "quick_cmd": "./check %s --tier quick" % p,
            "thorough_cmd": "./check %s --tier thorough" % p,
            "evidence_file": "evidence/%s.json" % p,
            "replay_cmd_template": "./check %s --replay {path}" % p,
            "engine": "pyvc",
            "level_claimed": {"category": c.get("category", "proof"), "text": c["text"], "design_ref": c.get("design_ref", "DESIGN.md section 10 / %s" % p)},
            "level_note": c["note"],
            "technique": c.get("technique", "contract-based deductive verification: VCs generated from the real source by pyvc (symbolic interpreter + sidecar contracts), discharged by z3/cvc5; counter-models replayed natively"),
        })
    else:
        na.append({"property_id": p, "reason": (c or {}).get("reason", "check not built yet (work in progress)")})
m = {
    "version": 1,
    "setup_cmd": "./check --setup",
    "hooks": {"guard": "JOSERFC_VERIF", "enable": "none needed: contracts and harnesses are sidecar files under /verif; /repo is read (source re-parsed and imported from the working tree on every run), never edited for verification",
              "baseline_off_cmd": "cd /repo && /venv/bin/python -m pytest -ra -q -p no:cacheprovider --timeout=900 --continue-on-collection-errors",
              "source_commits": claims.get("_source_commits", []), "add_only": True},
    "engines": [{"name": "pyvc", "path": "pyvc/", "serves_properties": [c["property_id"] for c in checks],
                 "kind_free_text": "own VC generator: path-splitting symbolic interpreter over the real /repo source ASTs (re-read every run) with sidecar contracts/harnesses, for-each loop rule, trusted primitive contracts; obligations discharged by z3 5.1 (cvc5 1.0.3 CLI for z3 unknowns); counter-models replayed natively on the real code"}],
    "checks": checks,
    "notes": claims.get("_notes", ""),
    "not_applicable": na,
}
json.dump(m, open(os.path.join(ROOT, "MANIFEST.json"), "w"), indent=1)
print("claimed:", [c["property_id"] for c in checks])
