#!/bin/sh
# usage: tools/mutant_run.sh <patch-file> <Cxx> [extra check args]   -- applies the patch to a scratch copy of /repo, runs the check, removes the copy
PATCH="$1"; PROP="$2"; shift 2
D=$(mktemp -d /var/tmp/joserfc-mut.XXXXXX)
cp -r /repo/src "$D/src"
( cd "$D" && patch -p1 -s --no-backup-if-mismatch < "$PATCH" ) || { echo "PATCH-FAILED $PATCH"; rm -rf "$D"; exit 9; }
/verif/check "$PROP" --repo "$D" "$@"
RC=$?
rm -rf "$D"
echo "mutant $(basename $PATCH) -> exit $RC"
exit $RC
