#!/bin/sh
# usage: tools/seed_confirm.sh seeded/<id>  -- confirm on a scratch copy: tests unchanged with the patch, demo fails with it and passes without
S="$1"
D=$(mktemp -d /var/tmp/joserfc-seed.XXXXXX)
cp -r /repo/src /repo/tests /repo/pyproject.toml /repo/setup.cfg /repo/conftest.py "$D"/ 2>/dev/null
cp -r /repo/src "$D"/ ; cp -r /repo/tests "$D"/
( cd "$D" && PYTHONPATH="$D/src" /venv/bin/python "/verif/$S/demo.py" >/dev/null 2>&1 ); BASE=$?
( cd "$D" && patch -p1 -s < "/verif/$S/patch.diff" ) || { echo "$S PATCH-FAILED"; rm -rf "$D"; exit 9; }
( cd "$D" && PYTHONPATH="$D/src" /venv/bin/python "/verif/$S/demo.py" >/dev/null 2>&1 ); MUT=$?
T=$( cd "$D" && PYTHONPATH="$D/src" /venv/bin/python -m pytest -q -p no:cacheprovider 2>&1 | tail -1 )
rm -rf "$D"
echo "$S demo_unpatched_exit=$BASE demo_patched_exit=$MUT tests: $T"
