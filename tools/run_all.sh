#!/bin/sh
# regenerate evidence/ and baseline/ from clean full runs against /repo, one property at a time
cd /verif
for p in C19 C12 C18 C08 C17 C11 C14 C13 C03 C09 C10 C04 C02 C01 C05 C06 C07 C20 C15 C16; do
  s=$(date +%s)
  ./check $p --write-baseline > /var/tmp/full-$p.log 2>&1
  rc=$?
  e=$(date +%s)
  echo "$p exit=$rc wall=$((e-s))s $(grep -v '^WARN' /var/tmp/full-$p.log | grep 'obligations' | tail -1)"
done
