import sys, importlib, time
sys.path.insert(0, '/verif')
import os
if os.environ.get('VERIF_REPO'): sys.path.insert(0, os.environ['VERIF_REPO']+'/src')
from pyvc import run
mod = importlib.import_module(sys.argv[1])
names = sys.argv[2:]
for h in mod.HARNESSES:
    if names and h.__name__ not in names: continue
    r = run.run_harness(h, verbose=True)
    print(h.__name__, 'paths', r.paths, 'witnessed', r.witnessed_paths, 'killed', r.killed, 'wall %.2f' % r.wall_s, r.stats)
    for u in r.unsupported: print('   UNSUPPORTED', u)
    for e in r.errors: print('   ERROR', e)
    for o in r.obligations:
        if o.status != 'proved': print('   ', o.status, o.label, o.solver, o.inputs)
