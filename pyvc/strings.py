"""pyvc.strings -- str / bytes methods on symbolic text (structural contracts for split/join/rstrip
so that token-level reasoning stays in EUF + LIA; the word-equation forms are kept as axioms)."""
from __future__ import annotations
from .core import (z3, PyVal, A, C, StringSort, IntSort, BoolSort, SeqPV, mk_str, mk_bytes, mk_list, simp, is_tag)
from .values import Unsupported, SVal, HList, HDict, HSet
from .ops import is_plain, boolval, native_exc
from . import spec as S

SepCount = z3.Function("SepCount", StringSort, StringSort, IntSort)
JoinSeq = z3.Function("JoinSeq", StringSort, SeqPV, StringSort)


def flatten_concat(t):
    if z3.is_app(t) and t.decl().kind() == z3.Z3_OP_SEQ_CONCAT:
        out = []
        for i in range(t.num_args()):
            out.extend(flatten_concat(t.arg(i)))
        return out
    return [t]


def concat(parts):
    parts = [p for p in parts]
    if not parts:
        return z3.StringVal("")
    if len(parts) == 1:
        return parts[0]
    return z3.Concat(*parts)


def _lit(t):
    from .core import str_value
    if z3.is_string_value(t):
        return str_value(t)
    return None


def text_arg(interp, v, tg, what):
    """String term of an argument that must have the same text kind as the receiver."""
    ta = interp.tag(v)
    if ta != tg:
        interp.raise_(TypeError, "%s: argument must be %s" % (what, "str" if tg == "vstr" else "bytes"))
    return interp.text_term(v)


def text_method(interp, recv, tg, name, args, kwargs):
    ctx = interp.ctx
    t = interp.text_term(recv)
    if name == "encode":
        if tg != "vstr":
            interp.raise_(AttributeError, "'bytes' object has no attribute 'encode'")
        charset = (args[0] if args else kwargs.get("encoding", "utf-8"))
        errors = (args[1] if len(args) > 1 else kwargs.get("errors", "strict"))
        if not isinstance(charset, str) or not isinstance(errors, str):
            raise Unsupported("encode with symbolic charset")
        cs = charset.lower().replace("_", "-")
        if cs in ("utf-8", "utf8"):
            if z3.is_true(S.is_ascii(ctx, t)):
                return interp.mk("vbytes", t)
            # lone surrogates cannot be encoded; json.loads can produce them from \\ud800 escapes
            S.surrogate_facts(ctx, t)
            if errors == "strict" and ctx.branch(S.HasSurrogate(t)):
                interp.raise_(UnicodeEncodeError, "utf-8", "", 0, 1, "surrogates not allowed")
            return interp.mk("vbytes", S.utf8_encode(ctx, t))
        if cs == "ascii":
            if ctx.branch(S.is_ascii(ctx, t)):
                return interp.mk("vbytes", t)
            if errors == "strict":
                interp.raise_(UnicodeEncodeError, "ascii", "", 0, 1, "ordinal not in range(128)")
            raise Unsupported("encode('ascii', %r)" % errors)
        raise Unsupported("encode(%r)" % charset)
    if name == "decode":
        if tg != "vbytes":
            interp.raise_(AttributeError, "'str' object has no attribute 'decode'")
        charset = (args[0] if args else kwargs.get("encoding", "utf-8"))
        errors = (args[1] if len(args) > 1 else kwargs.get("errors", "strict"))
        if not isinstance(charset, str) or not isinstance(errors, str):
            raise Unsupported("decode with symbolic charset")
        cs = charset.lower().replace("_", "-")
        if cs in ("utf-8", "utf8"):
            if ctx.branch(S.is_ascii(ctx, t)):
                return interp.mk("vstr", t)
            d = S.utf8_decode(ctx, t)
            if ctx.branch(S.UTF8Ok(t)):
                return interp.mk("vstr", d)
            if errors == "strict":
                interp.raise_(UnicodeDecodeError, "utf-8", b"", 0, 1, "invalid start byte")
            raise Unsupported("decode('utf-8', %r)" % errors)
        if cs == "ascii":
            if ctx.branch(S.is_ascii(ctx, t)):
                return interp.mk("vstr", t)
            interp.raise_(UnicodeDecodeError, "ascii", b"", 0, 1, "ordinal not in range(128)")
        raise Unsupported("decode(%r)" % charset)
    if name in ("startswith", "endswith"):
        p = args[0]
        fn = z3.PrefixOf if name == "startswith" else z3.SuffixOf
        if isinstance(p, tuple):
            parts = [fn(text_arg(interp, x, tg, name), t) for x in p]
            return boolval(interp, simp(z3.Or(*parts)) if parts else False)
        return boolval(interp, simp(fn(text_arg(interp, p, tg, name), t)))
    if name == "split":
        if not args or len(args) > 1 or kwargs:
            raise Unsupported("split without separator / with maxsplit")
        sep = text_arg(interp, args[0], tg, "split")
        return split(interp, t, sep, tg)
    if name == "join":
        return join(interp, t, tg, args[0])
    if name == "rstrip":
        if not args:
            raise Unsupported("rstrip() of whitespace")
        chars = text_arg(interp, args[0], tg, "rstrip")
        return rstrip(interp, t, chars, tg)
    if name == "format":
        return SVal(mk_str(ctx.fresh("fmt", StringSort)))
    if name in ("lower", "upper", "strip", "lstrip", "replace", "find", "index", "count", "splitlines", "partition",
                "rpartition", "rsplit", "title", "hex", "isdigit", "zfill"):
        raise Unsupported("text method %s on symbolic text" % name)
    ty = str if tg == "vstr" else bytes
    if not hasattr(ty, name):
        interp.raise_(AttributeError, "object has no attribute %r" % name)
    raise Unsupported("text method %s" % name)


def _sep_free(ctx, part, sep):
    f = z3.Not(z3.Contains(part, sep))
    if ctx.known(f) or S.b64u_free_of(part, sep):
        return True
    if S.is_rep_of(part, "=") and _lit(sep) not in (None, "="):
        return True
    return ctx.entails(f)


def split(interp, t, sep, tg):
    ctx = interp.ctx
    seplit = _lit(sep)
    if seplit is None or len(seplit) != 1:
        raise Unsupported("split on a symbolic or multi-character separator")
    parts = flatten_concat(simp(t))
    # structural case: every non-literal piece is separator-free
    pieces = [[]]
    ok = True
    for p in parts:
        lit = _lit(p)
        if lit is not None:
            segs = lit.split(seplit)
            for i, sgm in enumerate(segs):
                if i > 0:
                    pieces.append([])
                if sgm:
                    pieces[-1].append(z3.StringVal(sgm))
        else:
            if not _sep_free(ctx, p, sep):
                ok = False
                break
            pieces[-1].append(p)
    if ok:
        return HList(items=[interp.mk(tg, concat(pc)) for pc in pieces])
    # general case: fork on the number of separators (hinted counts), parts described by axioms
    hints = sorted(set(getattr(interp.cfg, "split_hints", (3, 5))))
    cnt = SepCount(t, sep)
    ctx.axiom(cnt >= 0, "SepCount >= 0")
    conds = [cnt == h - 1 for h in hints] + [z3.And(*[cnt != h - 1 for h in hints])]
    i = ctx.choose(conds)
    if i < len(hints):
        n = hints[i]
        ps = [ctx.fresh("part", StringSort) for _ in range(n)]
        whole = []
        for j, p in enumerate(ps):
            if j:
                whole.append(sep)
            whole.append(p)
            ctx.axiom(z3.Not(z3.Contains(p, sep)), "split: parts contain no separator")
        ctx.axiom(t == concat(whole), "split: joining the parts with the separator gives the text back")
        return HList(items=[interp.mk(tg, p) for p in ps])
    seq = ctx.fresh("parts", SeqPV)
    ctx.axiom(z3.Length(seq) == cnt + 1, "split: number of parts = separators + 1")
    l = HList(seq=seq)
    return l


def join(interp, sep, tg, arg):
    from . import builtins_impl as B
    from .trusted import HexPairs
    if isinstance(arg, HexPairs):
        if tg == "vstr" and _lit(sep) == "":
            r = S.Hex(arg.data)
            interp.ctx.axiom(z3.Length(r) == 2 * z3.Length(arg.data), "|hex(s)| = 2|s|")
            return interp.mk("vstr", r)
        raise Unsupported("join of hex pairs with a separator")
    arg = B.container(interp, arg)
    if isinstance(arg, HList) and arg.mode == "s":
        return interp.mk(tg, JoinSeq(sep, arg.seq))
    items = interp.iter_concrete(arg)
    terms = []
    for i, x in enumerate(items):
        if interp.tag(x) != tg:
            interp.raise_(TypeError, "sequence item %d: expected %s instance" % (i, "str" if tg == "vstr" else "a bytes-like object"))
        if i:
            terms.append(sep)
        terms.append(interp.text_term(x))
    return interp.mk(tg, simp(concat(terms)) if terms else z3.StringVal(""))


def rstrip(interp, t, chars, tg):
    ctx = interp.ctx
    cl = _lit(chars)
    if cl is None or len(cl) != 1:
        raise Unsupported("rstrip with symbolic / multi-character set")
    pad_re = z3.Star(z3.Re(cl))
    parts = flatten_concat(simp(t))
    # structural case: base ++ pad where pad in chars* and base does not end with chars
    # candidate cuts: the tail parts[cut:] consists of pad characters only; prefer the longest such tail
    cuts = []
    for cut in range(len(parts), -1, -1):
        tail = parts[cut:]
        if tail and not (S.is_rep_of(tail[0], cl) or ctx.entails(z3.InRe(concat(tail), pad_re))):
            break
        cuts.append(cut)
    for cut in reversed(cuts):
        base = parts[:cut]
        b = simp(concat(base))
        b64_tail = bool(base) and S.is_b64u_app(base[-1]) and S.b64u_free_of(base[-1], chars)   # alphabet axiom, syntactic instance
        if b64_tail or (not base) or ctx.known(z3.Not(z3.SuffixOf(chars, b))) or ctx.entails(z3.Not(z3.SuffixOf(chars, b))):
            return interp.mk(tg, b)
    r = ctx.fresh("rstrip", StringSort)
    pads = ctx.fresh("rstrip_pad", StringSort)
    ctx.axiom(z3.And(t == z3.Concat(r, pads), z3.InRe(pads, pad_re), z3.Not(z3.SuffixOf(chars, r))),
              "rstrip: text = result ++ stripped characters, result does not end with them")
    return interp.mk(tg, r)
