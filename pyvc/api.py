"""pyvc.api -- the harness / contract language.

A harness is an ordinary Python function.  The *same text* has two evaluators:
  * symbolic -- pyvc interprets the harness; ``sym_*`` create symbolic inputs, ``call`` interprets the
    real function from /repo's source, ``check`` emits a proof obligation (path condition => goal);
  * native   -- CPython runs the harness; ``sym_*`` read the concrete inputs of a counter-model,
    ``call`` calls the real function, ``check`` evaluates the goal (replay of a counterexample).
This module is the native evaluator; pyvc.harness overrides these names symbolically.
"""
from __future__ import annotations


class AssumptionFailed(Exception):
    pass


class _Native:
    def __init__(self):
        self.inputs = {}
        self.failures = []
        self.checked = []
        self.covered = []
        self.events = []


NATIVE = _Native()


def _inp(name, default):
    return NATIVE.inputs.get(name, default)


def _thaw(v):
    """JSON-transported input -> python value (bytes are {'__bytes__': hex})."""
    if isinstance(v, dict):
        if set(v.keys()) == {"__bytes__"}:
            return bytes.fromhex(v["__bytes__"])
        if set(v.keys()) == {"__float__"}:
            return float(v["__float__"])
        return {k: _thaw(x) for k, x in v.items()}
    if isinstance(v, list):
        return [_thaw(x) for x in v]
    return v


def sym_int(name, default=0):
    return _thaw(_inp(name, default))


def sym_bool(name, default=False):
    return _thaw(_inp(name, default))


def sym_str(name, default=""):
    return _thaw(_inp(name, default))


def sym_bytes(name, default=b""):
    return _thaw(_inp(name, default))


def sym_json(name, default=None):
    """Any value of the JSON data model."""
    return _thaw(_inp(name, default))


def sym_dict(name, default=None):
    """Any JSON object (str keys, JSON values)."""
    v = _thaw(_inp(name, default))
    return {} if v is None else v


def sym_list(name, default=None):
    v = _thaw(_inp(name, default))
    return [] if v is None else v


def sym_choice(name, options):
    """One of a finite list of concrete options (case split)."""
    i = _inp(name, 0)
    return options[i]


def assume(cond):
    if not cond:
        raise AssumptionFailed()


def check(cond, label=""):
    NATIVE.checked.append(label)
    if not cond:
        NATIVE.failures.append(label)


def cover(label):
    NATIVE.covered.append(label)


class Outcome:
    def __init__(self, returned, value=None, exc=None):
        self.returned = returned
        self.value = value
        self.exc = exc

    def raised(self, cls=BaseException):
        return (not self.returned) and isinstance(self.exc, cls)

    def raised_only(self, *classes):
        return self.returned or isinstance(self.exc, classes)

    def __repr__(self):
        if self.returned:
            return "Outcome(returned %r)" % (self.value,)
        return "Outcome(raised %s: %s)" % (type(self.exc).__name__, self.exc)


def call(fn, *args, **kwargs):
    try:
        return Outcome(True, fn(*args, **kwargs))
    except AssumptionFailed:
        raise
    except BaseException as e:   # noqa
        return Outcome(False, None, e)


def assume_returns(fn, *args, **kwargs):
    """Assume the call returns normally (used to assume a validator accepted an input)."""
    try:
        return fn(*args, **kwargs)
    except AssumptionFailed:
        raise
    except BaseException:
        raise AssumptionFailed()


def implies(a, b):
    return (not a) or bool(b)


def iff(a, b):
    return bool(a) == bool(b)


def forall_keys(d, f):
    return all(f(k) for k in list(d))


def exists_key(d, f):
    return any(f(k) for k in list(d))


def forall_elems(xs, f):
    return all(f(x) for x in list(xs))


def exists_elem(xs, f):
    return any(f(x) for x in list(xs))


def py_eq(a, b):
    return a == b


def same_json(a, b):
    return a == b


def is_none(v):
    return v is None


def note(*a):
    return None


# spec-function access from harness code (native side: reference implementations)
def spec_b64u(b):
    from . import spec
    return spec.ref_B64U(b)


def spec_minbe(n):
    from . import spec
    return spec.ref_MinBE(n)


def spec_i2osp(n, length):
    from . import spec
    return spec.ref_I2OSP(n, length)


def spec_os2ip(b):
    from . import spec
    return spec.ref_OS2IP(b)


def spec_pow256(k):
    return 256 ** k if k >= 0 else 0


def in_b64u_alphabet(b):
    return all(chr(c) in "ABCDEFGHIJKLMNOPQRSTUVWXYZabcdefghijklmnopqrstuvwxyz0123456789-_" for c in b)


def only_b64_input_chars(b):
    return all(chr(c) in "ABCDEFGHIJKLMNOPQRSTUVWXYZabcdefghijklmnopqrstuvwxyz0123456789-_=+/" for c in b)


def spec_jsonc(v):
    from . import spec
    return spec.ref_JSONc(v)


def writes_of(out):
    return []


def snapshot(obj):
    """Deep copy of a mutable argument, to state that a call does not modify it."""
    import copy
    return copy.deepcopy(obj)


def unchanged(obj, snap):
    return obj == snap


def truthy(v):
    return bool(v)


def specfn(f):
    """Marks a spec function: unfolded when a contract is verified, opaque when it is applied."""
    f.__specfn__ = True
    return f


def opaque(fn, *args):
    """Apply a spec function without unfolding it (native side: just call it)."""
    return fn(*args)


def check_contract(c, p, out, label):
    """Obligations of contract `c` for one observed outcome `out` of the real function."""
    if out.returned:
        if c.returns is not None:
            check(c.returns(p), label + ": returns => ensures")
        if c.result is not None:
            check(py_eq(out.value, c.result(p)), label + ": result")
    else:
        matched = False
        for cls, fact in c.raises.items():
            if out.raised(cls) and not matched:
                matched = True
                if fact is not None:
                    check(fact(p), label + ": raises " + cls.__name__ + " => its condition")
        check(matched, label + ": raises only the declared exception classes")


def all_of(*conds):
    """Conjunction without short-circuit forking."""
    return all(bool(c) for c in conds)


def any_of(*conds):
    return any(bool(c) for c in conds)


def is_list_of_str(v):
    return isinstance(v, list) and all(isinstance(x, str) for x in v)


def is_url_str(v):
    return isinstance(v, str) and v.startswith(("http://", "https://"))


def is_strict_int(v):
    return isinstance(v, int) and not isinstance(v, bool)


def spec_hmac(hname, key, msg):
    import hmac as _hmac
    import hashlib as _hashlib
    return _hmac.new(key, msg, getattr(_hashlib, hname)).digest()


def spec_json_ok(b):
    import json as _json
    try:
        _json.loads(b)
        return True
    except (ValueError, TypeError, RecursionError):
        return False


def spec_json_parse(b):
    import json as _json
    return _json.loads(b)


def spec_b64u_ok(b):
    from joserfc.util import urlsafe_b64decode
    try:
        urlsafe_b64decode(b)
        return True
    except Exception:
        return False


def spec_utf8(s):
    return s.encode("utf-8")


# ---- keys and signature relations ------------------------------------------------------------
def make_key(kind, name, private=True, curve=None, params=None, bits=2048):
    """A joserfc key object over a key of the given shape. kind: 'rsa' | 'ec' | 'okp'.
    Native: a real key (cached by name); symbolic: abstract key material."""
    from . import reference
    from joserfc.jwk import RSAKey, ECKey, OKPKey
    raw = reference.raw_key(kind, name, curve, bits)
    if not private:
        raw = raw.public_key()
    cls = {"rsa": RSAKey, "ec": ECKey, "okp": OKPKey}[kind]
    return cls(raw, raw, params)


def spec_verify(alg, key, msg, sig):
    """Valid(alg, K, m, s): RFC verification with the public part of `key` (or the octets of an oct key)."""
    from . import reference
    from joserfc.jwk import OctKey
    if isinstance(key, OctKey):
        return reference.verify(alg, key.raw_value, msg, sig)
    raw = key.raw_value
    pub = raw.public_key() if hasattr(raw, "public_key") else raw
    return reference.verify(alg, pub, msg, sig)


def spec_sign(alg, key, msg):
    from . import reference
    return reference.sign(alg, key.raw_value, msg)


OPEN_FINDINGS = set()


def known(fid):
    """True iff `fid` is listed as an open known finding (the obligation is then proved on the complement of the
    finding's input class).  During native replay it is always False, so a witness of the finding still fails."""
    return False


def urlsafe_text(b):
    """RFC 7797 section 5.2 URL-safe payload: one or more of a-z A-Z 0-9 - _ ~"""
    import re as _re
    try:
        t = b.decode("utf-8") if isinstance(b, bytes) else b
    except UnicodeDecodeError:
        return False
    return bool(_re.match("^[a-zA-Z0-9-_~]+$", t)) and not t.endswith("\n")


def py_urlsafe_match(b):
    """What joserfc's RFC 7797 attach test computes: re.match("^[a-zA-Z0-9-_~]+$") on the UTF-8 text
    (Python's `$` also matches before one trailing newline)."""
    import re as _re
    try:
        t = b.decode("utf-8") if isinstance(b, bytes) else b
    except UnicodeDecodeError:
        return False
    return bool(_re.match("^[a-zA-Z0-9-_~]+$", t))


def ascii_only(b):
    return all(c < 128 for c in b) if isinstance(b, bytes) else all(ord(c) < 128 for c in b)


def shared_writes(out, call_relative=False):
    """Descriptions of heap writes, during the call, to objects that existed before it (registries, algorithm
    models, class tables; with call_relative=True also every object the harness built before the call -- keys, key
    sets, registry instances -- except the containers passed as the call's own arguments).
    Only the symbolic evaluator observes writes; natively: []."""
    return []


# ---- JWE spec functions (native: raw cryptography; symbolic: idealised relations) ---------------
def spec_gcm_ok(key, iv, aad, ct, tag):
    from cryptography.hazmat.primitives.ciphers.aead import AESGCM
    from cryptography.exceptions import InvalidTag
    if len(key) not in (16, 24, 32) or len(tag) != 16 or len(iv) < 8:
        return False
    try:
        AESGCM(key).decrypt(iv, ct + tag, aad)
        return True
    except InvalidTag:
        return False


def spec_gcm_dec(key, iv, aad, ct, tag):
    from cryptography.hazmat.primitives.ciphers.aead import AESGCM
    return AESGCM(key).decrypt(iv, ct + tag, aad)


def spec_unwrap_ok(kek, ek):
    from cryptography.hazmat.primitives.keywrap import aes_key_unwrap, InvalidUnwrap
    try:
        aes_key_unwrap(kek, ek)
        return True
    except (InvalidUnwrap, ValueError):
        return False


def spec_unwrap(kek, ek):
    from cryptography.hazmat.primitives.keywrap import aes_key_unwrap
    return aes_key_unwrap(kek, ek)


def spec_cbc_hs_tag(hname, mac_key, aad, iv, ct, n):
    """RFC 7518 section 5.2.2.1: T = first n octets of HMAC(MAC_KEY, AAD || IV || E || AL), AL = 64-bit big-endian bit length of AAD."""
    import hmac as _hmac
    import hashlib as _hashlib
    al = (len(aad) * 8).to_bytes(8, "big")
    return _hmac.new(mac_key, aad + iv + ct + al, getattr(_hashlib, hname)).digest()[:n]


def is_native():
    """True under the native evaluator (replay), False under the symbolic one."""
    return True


def random_draws(out):
    """(what, size) of every entropy-tape draw made during the call (symbolic evaluator only; natively [])."""
    return []


def is_fresh_draw(value, n):
    """The value is one cell of the entropy tape of exactly n octets, drawn during this harness run
    (symbolic: the term is Draw(cell, n); natively it only checks the size)."""
    return len(value) == n


def spec_deflate_raw(b):
    import zlib as _zlib
    c = _zlib.compressobj(wbits=-15)
    return c.compress(b) + c.flush()


def spec_inflate_len_ok(stream, limit):
    return True


def crypto_events(out, kind):
    """Arguments of every primitive call of the given kind made during the call (symbolic evaluator only)."""
    return []


def spec_hash(name, data):
    import hashlib as _h
    return _h.new(name, data).digest()


def spec_b64u_ok_text(s):
    """The text decodes as (unpadded) base64url."""
    import base64 as _b, binascii as _ba
    if not isinstance(s, str):
        return False
    try:
        b = s.encode("utf-8")
        if b"+" in b or b"/" in b:
            return False
        _b.b64decode(b + b"=" * (-len(b) % 4), b"-_", validate=True)
        return True
    except (_ba.Error, ValueError):
        return False


def spec_b64u_decode(text):
    """Octets of an (unpadded) base64url text (harness-side observation; never raises symbolically)."""
    import base64 as _b
    b = text.encode("ascii") if isinstance(text, str) else text
    return _b.b64decode(b + b"=" * (-len(b) % 4), b"-_")


def mk_datetime(wall, offset=None):
    """A datetime.datetime whose wall-clock fields are `wall` seconds after 1970-01-01T00:00:00 and whose tzinfo is a
    fixed offset of `offset` seconds east of UTC (None: naive).  Its NumericDate is wall - offset (naive: wall)."""
    import datetime as _dt
    tz = None if offset is None else _dt.timezone(_dt.timedelta(seconds=offset))
    return _dt.datetime(1970, 1, 1, tzinfo=tz) + _dt.timedelta(seconds=wall)
