"""pyvc.trusted -- assumed contracts of CPython / stdlib primitives (the trusted base, DESIGN.md section 8).
Each stub states the primitive's behaviour over spec functions, including its exceptional outcomes.
None of this is proved; every axiom used by a run is listed in that run's evidence.
"""
from __future__ import annotations
from .core import tid
import base64
import binascii
import struct
import json
import time
import copy
import warnings
import calendar
import datetime
import random
import re
import hashlib
import hmac
import secrets
import zlib

from .core import (z3, PyVal, A, C, VABSENT, VNONE, StringSort, IntSort, BoolSort, RealSort, SeqPV, mk_bool, mk_int, mk_float,
                   mk_str, mk_bytes, mk_list, mk_dict, simp, is_tag, head_tag, lift)
from .values import Unsupported, PyRaise, SVal, HObj, HDict, HList, HSet, Foreign
from .ops import is_plain, boolval, native_exc
from . import spec as S
from . import strings as STR
from . import builtins_impl as B


def _bytes_arg(interp, v, what):
    tg = interp.tag(v)
    if tg != "vbytes":
        interp.raise_(TypeError, "%s: a bytes-like object is required" % what)
    return interp.bytes_term(v)


def install(cfg):
    # ---- base64 ----------------------------------------------------------------------------
    @cfg.stub(base64.b64decode)
    def b64decode(interp, s, altchars=None, validate=False):
        ctx = interp.ctx
        if is_plain(s) and is_plain(altchars):
            try:
                return base64.b64decode(s, altchars, validate=validate)
            except Exception as e:  # noqa
                native_exc(interp, e)
        if altchars != b"-_" or not isinstance(validate, bool):
            raise Unsupported("base64.b64decode with other altchars than b'-_'")
        tg = interp.tag(s)
        if tg == "vstr":
            raise Unsupported("base64.b64decode(str)")
        t = _bytes_arg(interp, s, "b64decode")
        # structural inverse: decoding exactly a (padded) encoding gives back what was encoded
        ts = simp(t)
        # syntactic form  B64U(x) ++ "=" * ((-|B64U(x)|) % 4)  (or B64U(x) alone): independent of the registry
        parts0 = STR.flatten_concat(ts)
        if parts0 and S.is_b64u_app(parts0[0]):
            e0 = parts0[0]
            if len(parts0) == 1 or (len(parts0) == 2 and tid(simp(S.pad_for(ctx, e0))) == tid(parts0[1])):
                ctx.axiom_log.add("b64decode(B64U(x) ++ padding to a multiple of 4) = x")
                return interp.mk("vbytes", e0.arg(0))
        for x, e in list(ctx.ghost.get("B64U_terms", [])):
            if tid(simp(z3.Concat(e, S.pad_for(ctx, e)))) == tid(ts) or tid(simp(e)) == tid(ts):
                ctx.axiom_log.add("b64decode(B64U(x) ++ padding to a multiple of 4) = x")
                return interp.mk("vbytes", x)
        if validate:
            ok = S.PyB64Ok(t)
            dec = S.PyB64Dec(t)
        else:
            # validate=False: characters outside the alphabet are discarded, only padding errors raise
            ok = S.PyB64OkLax(t)
            dec = S.PyB64DecLax(t)
        # (a) a (padded) encoding decodes to what was encoded
        for x, e in list(ctx.ghost.get("B64U_terms", [])):
            pad = S.pad_for(ctx, e)
            ctx.axiom(z3.Implies(t == z3.Concat(e, pad), z3.And(ok, dec == x)),
                      "b64decode(B64U(x) ++ padding to a multiple of 4) = x")
        if not validate:
            if ctx.branch(ok):
                return interp.mk("vbytes", dec)
            interp.raise_(binascii.Error, "Incorrect padding")
        # (b) a byte outside the alphabet, '=', '+', '/' is rejected
        ctx.axiom(z3.Implies(z3.Not(z3.InRe(t, z3.Star(S.B64_INPUT_CHARS))), z3.Not(ok)),
                  "b64decode(validate=True) rejects bytes outside the alphabet")
        # (c) data length = 1 mod 4 is rejected
        parts = STR.flatten_concat(simp(t))
        base = []
        for p in parts:
            if S.is_rep_of(p, "="):
                continue
            base.append(p)
        if base and len(base) <= len(parts):
            bt = STR.concat(base)
            noeq = z3.Star(z3.Union(S.B64U_ALPHA, z3.Re("+"), z3.Re("/")))
            ctx.axiom(z3.Implies(z3.And(z3.InRe(bt, noeq), z3.Length(bt) % 4 == 1), z3.Not(ok)),
                      "b64decode rejects a data length of 1 mod 4")
        if ctx.branch(ok):
            return interp.mk("vbytes", dec)
        interp.raise_(binascii.Error, "invalid base64")

    @cfg.stub(base64.urlsafe_b64encode)
    def urlsafe_b64encode(interp, s):
        if is_plain(s):
            try:
                return base64.urlsafe_b64encode(s)
            except Exception as e:  # noqa
                native_exc(interp, e)
        t = _bytes_arg(interp, s, "urlsafe_b64encode")
        e = S.B64U_app(interp.ctx, t)
        return interp.mk("vbytes", z3.Concat(e, S.pad_for(interp.ctx, e)))

    # ---- binascii / struct -----------------------------------------------------------------
    @cfg.stub(binascii.a2b_hex)
    def a2b_hex(interp, s):
        ctx = interp.ctx
        if is_plain(s):
            try:
                return binascii.a2b_hex(s)
            except Exception as e:  # noqa
                native_exc(interp, e)
        t = simp(interp.text_term(s))
        if z3.is_app(t) and t.decl().eq(S.HexPad):
            w, n = t.arg(0), t.arg(1)
            if ctx.branch(n < 0):
                interp.raise_(binascii.Error, "Non-hexadecimal digit found")
            if ctx.branch(w % 2 != 0):
                raise Unsupported("a2b_hex of an odd-width rendering")
            half = simp(w / 2)
            fits = n < S.pow256(ctx, half)
            if ctx.branch(fits):
                r = S.I2OSP(n, half)
                ctx.axiom(z3.Length(r) == half, "I2OSP: |I2OSP(n, L)| = L")
                ctx.axiom(S.OS2IP(r) == n, "OS2IP(I2OSP(n, L)) = n")
                return interp.mk("vbytes", r)
            # wider than the requested width: odd number of digits raises, otherwise longer octets
            if ctx.branch(ctx.fresh("hex_odd", BoolSort)):
                interp.raise_(binascii.Error, "Odd-length string")
            r = S.UnHex(t)
            ctx.axiom(z3.Length(r) > half, "a2b_hex of an over-long rendering is longer than width/2")
            return interp.mk("vbytes", r)
        raise Unsupported("a2b_hex of text that is not a hex rendering")

    @cfg.stub(binascii.b2a_hex)
    def b2a_hex(interp, s):
        if is_plain(s):
            try:
                return binascii.b2a_hex(s)
            except Exception as e:  # noqa
                native_exc(interp, e)
        t = _bytes_arg(interp, s, "b2a_hex")
        r = S.Hex(t)
        interp.ctx.axiom(z3.Length(r) == 2 * z3.Length(t), "|hex(s)| = 2|s|")
        return interp.mk("vbytes", r)

    @cfg.stub(struct.pack)
    def struct_pack(interp, fmt, *vals):
        ctx = interp.ctx
        if is_plain(fmt) and all(is_plain(v) for v in vals):
            try:
                return struct.pack(fmt, *vals)
            except Exception as e:  # noqa
                native_exc(interp, e)
        if fmt == ">I" and len(vals) == 1:
            if interp.tag(vals[0]) not in ("vint", "vbool"):
                interp.raise_(struct.error, "required argument is not an integer")
            n = interp.int_term(vals[0])
            if ctx.branch(z3.Or(n < 0, n > 0xFFFFFFFF)):
                interp.raise_(struct.error, "'I' format requires 0 <= number <= 4294967295")
            r = S.I2OSP(n, z3.IntVal(4))
            ctx.axiom(z3.Length(r) == 4, "I2OSP: |I2OSP(n, 4)| = 4")
            ctx.axiom(S.OS2IP(r) == n, "OS2IP(I2OSP(n, L)) = n")
            return interp.mk("vbytes", r)
        raise Unsupported("struct.pack(%r)" % (fmt,))

    @cfg.stub(struct.unpack)
    def struct_unpack(interp, fmt, data):
        if is_plain(fmt) and is_plain(data):
            try:
                return struct.unpack(fmt, data)
            except Exception as e:  # noqa
                native_exc(interp, e)
        if isinstance(fmt, B.StructFmtB):
            t = _bytes_arg(interp, data, "unpack")
            if not interp.ctx.branch(fmt.n == z3.Length(t)):
                interp.raise_(struct.error, "unpack requires a buffer of n bytes")
            return OctetTuple(t)
        raise Unsupported("struct.unpack(%r)" % (fmt,))

    # ---- json ------------------------------------------------------------------------------
    def _all_text_ascii(interp, o):
        """structural: every key and string leaf of a concretely-shaped value is ASCII (entailed for symbolic text)"""
        if isinstance(o, HDict):
            if o.mode != "c":
                return False
            return all(isinstance(k, str) and k.isascii() and _all_text_ascii(interp, x) for k, x in o.py.items())
        if isinstance(o, HList):
            if getattr(o, "items", None) is None:
                return False
            return all(_all_text_ascii(interp, x) for x in o.items)
        if o is None or isinstance(o, (bool, int, float)):
            return True
        if isinstance(o, str):
            return o.isascii()
        if isinstance(o, SVal):
            tg = interp.tag(o)
            if tg in ("vint", "vbool", "vnone", "vfloat"):
                return True
            if tg == "vstr":
                return interp.ctx.entails(S.is_ascii(interp.ctx, interp.str_term(o)))
        return False

    @cfg.stub(json.dumps)
    def json_dumps(interp, obj, ensure_ascii=True, separators=None, cls=None, **kw):
        ctx = interp.ctx
        if kw:
            raise Unsupported("json.dumps options %r" % list(kw))
        if cls is not None:
            raise Unsupported("json.dumps with an encoder class (caller-supplied code)")
        if separators != (",", ":"):
            raise Unsupported("json.dumps separators")
        try:
            v = interp.term_of(obj)
        except Unsupported:
            interp.raise_(TypeError, "Object is not JSON serializable")
        v = simp(v)
        cond = json_value_cond(ctx, v)
        if not ctx.branch(cond):
            interp.raise_(TypeError, "Object is not JSON serializable")
        fn = S.JSONc if ensure_ascii else S.JSONu
        t = fn(v)
        try:
            from .core import lower
            conc = lower(v)
            t = z3.StringVal(json.dumps(conc, ensure_ascii=ensure_ascii, separators=(",", ":")))
        except Exception:
            pass
        key = ("json", tid(t))
        if key not in ctx.ghost:
            ctx.ghost[key] = True
            ctx.ghost.setdefault("JSON_terms", []).append((t, v, ensure_ascii))
            if ensure_ascii:
                ctx.axiom(S.is_ascii(ctx, t), "json.dumps(ensure_ascii=True) is ASCII")
                ctx.axiom(z3.And(S.JSONOk(t), S.JSONParse(t) == v), "json.loads(json.dumps(v)) = v on the JSON data model")
            else:
                u = S.utf8_encode(ctx, t)
                if _all_text_ascii(interp, obj):
                    ctx.axiom(z3.Not(S.HasSurrogate(t)), "json.dumps(ensure_ascii=False) of a value whose every string is ASCII has no lone surrogate")
                ctx.axiom(z3.And(S.JSONOk(t), S.JSONParse(t) == v, z3.Implies(z3.Not(S.HasSurrogate(t)), z3.And(S.JSONOk(u), S.JSONParse(u) == v))),
                          "json.loads(json.dumps(v, ensure_ascii=False)[.encode()]) = v on the JSON data model")
            ctx.axiom(z3.Length(t) > 0, "json.dumps output is non-empty")
            ctx.axiom(z3.Implies(is_tag(v, "vdict"), z3.PrefixOf(z3.StringVal("{"), t)), "JSON object text starts with '{'")
        return interp.mk("vstr", t)

    @cfg.stub(json.loads)
    def json_loads(interp, s, cls=None, **kw):
        ctx = interp.ctx
        if kw:
            raise Unsupported("json.loads options")
        if cls is not None:
            raise Unsupported("json.loads with a decoder class (caller-supplied code)")
        if is_plain(s) and isinstance(s, (str, bytes)):
            try:
                r = json.loads(s)
            except RecursionError:
                raise Unsupported("recursion limit")
            except Exception as e:  # noqa
                native_exc(interp, e)
            return _deep_wrap(r)
        tg = interp.tag(s)
        if tg not in ("vstr", "vbytes"):
            interp.raise_(TypeError, "the JSON object must be str, bytes or bytearray")
        t = interp.text_term(s)
        ts = simp(t)
        for (jt, jv, asc) in list(ctx.ghost.get("JSON_terms", [])):
            if tid(simp(jt)) == tid(ts) or tid(simp(S.UTF8(jt))) == tid(ts):
                ctx.axiom_log.add("json.loads(json.dumps(v)) = v on the JSON data model")
                return interp.from_term(jv)
        if not ctx.branch(S.JSONOk(t)):
            interp.raise_(json.JSONDecodeError, "Expecting value", "", 0)
        r = S.JSONParse(t)
        key = ("jsonparse", tid(r))
        if key not in ctx.ghost:
            ctx.ghost[key] = True
            ctx.axiom(S.IsJSONValue(r), "json.loads yields a value of the JSON data model")
            ctx.axiom(z3.Not(is_tag(r, "vabsent")), "json.loads yields a value")
            ctx.axiom(z3.Not(z3.Or(is_tag(r, "vbytes"), is_tag(r, "vobj"))), "json.loads never yields bytes/objects")
        return interp.from_term(r)

    # ---- time ------------------------------------------------------------------------------
    @cfg.stub(time.time)
    def time_time(interp):
        r = interp.ctx.fresh("time", RealSort)
        interp.ctx.axiom(r >= 0, "time.time() >= 0")
        prev = interp.ctx.ghost.get("time.time")
        if prev is not None:
            interp.ctx.axiom(r >= prev, "time.time() is non-decreasing within a call sequence")
        interp.ctx.ghost["time.time"] = r
        return SVal(mk_float(r))

    # ---- datetime / calendar: a datetime is (wall-clock seconds since the epoch, utc offset or None) ----------
    cfg.isinstance_foreign[datetime.datetime] = lambda interp, f: f.kind == "datetime"
    cfg.isinstance_foreign[datetime.date] = lambda interp, f: f.kind == "datetime"
    cfg.foreign_real_class["datetime"] = datetime.datetime

    def dt_utctimetuple(interp, d, args, kwargs):
        # datetime.utctimetuple(): the fields of (self - utcoffset) for an aware value, the fields as they are for a naive one
        return Foreign("struct_time", secs=d.f["wall"] if d.f["off"] is None else d.f["wall"] - d.f["off"])
    cfg.foreign_methods[("datetime", "utctimetuple")] = dt_utctimetuple
    cfg.foreign_methods[("datetime", "timetuple")] = lambda interp, d, args, kwargs: Foreign("struct_time", secs=d.f["wall"])

    @cfg.stub(calendar.timegm)
    def timegm(interp, st):
        if isinstance(st, Foreign) and st.kind == "struct_time":
            return SVal(mk_int(st.f["secs"]))
        raise Unsupported("calendar.timegm of a non-struct_time")

    @cfg.stub(warnings.warn)
    def warn(interp, *a, **k):
        interp.ctx.events.append(("warn", a[0] if a else None))
        return None

    import typing as _typing

    @cfg.stub(_typing.cast)
    def typing_cast(interp, typ, val):
        return val

    from cryptography.hazmat.primitives import serialization as _ser
    cfg.class_hooks[_ser.NoEncryption] = lambda interp, *a, **k: Foreign("noencryption")
    cfg.class_hooks[_ser.BestAvailableEncryption] = lambda interp, pw, *a, **k: Foreign("bestavailable", password=pw)

    import collections as _collections
    cfg.class_hooks[_collections.OrderedDict] = lambda interp, *a, **k: HDict(py={})

    @cfg.stub(copy.deepcopy)
    def deepcopy(interp, v, *a):
        return _deepcopy(interp, v)


def _deepcopy(interp, v):
    if isinstance(v, SVal) or is_plain(v):
        return v
    if isinstance(v, HDict):
        if v.mode == "s":
            return HDict(vals=v.vals, n=v.n)
        return HDict(py={k: _deepcopy(interp, x) for k, x in v.py.items()})
    if isinstance(v, HList):
        if v.mode == "s":
            return HList(seq=v.seq)
        return HList(items=[_deepcopy(interp, x) for x in v.items])
    raise Unsupported("deepcopy of %r" % (type(v),))


def _deep_wrap(r):
    if isinstance(r, dict):
        return HDict(py={k: _deep_wrap(v) for k, v in r.items()})
    if isinstance(r, list):
        return HList(items=[_deep_wrap(v) for v in r])
    return r


class OctetTuple:
    """struct.unpack('<n>B', data): the tuple of the octets of data."""
    def __init__(self, data):
        self.data = data


class HexPairs:
    """["%02x" % b for b in octets(data)]"""
    def __init__(self, data):
        self.data = data


def json_value_cond(ctx, v):
    """Condition under which a term is a value of the JSON data model (structural where possible)."""
    v = simp(v)
    ht = head_tag(v)
    if ht in ("vnone", "vbool", "vint", "vfloat", "vstr"):
        return z3.BoolVal(True)
    if ht in ("vbytes", "vobj", "vabsent"):
        return z3.BoolVal(False)
    if ht == "vlist":
        try:
            from .core import _seq_items
            items = _seq_items(v.arg(0))
            conds = [json_value_cond(ctx, x) for x in items]
            return z3.And(*conds) if conds else z3.BoolVal(True)
        except Exception:
            return S.IsJSONValue(v)
    if ht == "vdict":
        from .core import DId, DArr
        dd = v.arg(0)
        arr = dd.arg(0) if (z3.is_app(dd) and dd.decl().eq(DId)) else DArr(dd)
        conds = []
        while z3.is_app(arr) and arr.decl().kind() == z3.Z3_OP_STORE:
            val = arr.arg(2)
            if head_tag(simp(val)) != "vabsent":
                conds.append(z3.Or(val == VABSENT, json_value_cond(ctx, val)))
            arr = arr.arg(0)
        if z3.is_app(arr) and arr.decl().kind() == z3.Z3_OP_CONST_ARRAY:
            return z3.And(*conds) if conds else z3.BoolVal(True)
        conds.append(S.IsJSONVals(arr))
        return z3.And(*conds)
    return S.IsJSONValue(v)
