"""pyvc.trusted_crypto -- assumed contracts of hashlib/hmac/secrets/random/zlib and of the
`cryptography` / pycryptodome primitives, stated over idealised spec relations (DESIGN.md section 8).

Key material is abstract: a key is an integer identity; Pub(sk) is the public key of sk.
Correctness axioms (verify o sign, dec o enc, unwrap o wrap, ECDH commutativity) are instantiated at
the point where the producing primitive is called.  Security is idealised: Valid/unwrap-ok facts are
*only* derivable for artefacts produced with the key.
"""
from __future__ import annotations
import hashlib
import hmac
import secrets
import random
import zlib
import re

from .core import (z3, PyVal, A, C, VABSENT, VNONE, StringSort, IntSort, BoolSort, RealSort, SeqPV, mk_bool, mk_int,
                   mk_str, mk_bytes, mk_list, simp, is_tag, head_tag, tid)
from .values import Unsupported, PyRaise, SVal, HObj, HDict, HList, HSet, Foreign
from .ops import is_plain, boolval, native_exc
from . import spec as S

S_ = StringSort
I_ = IntSort
B_ = BoolSort

# ---- spec relations --------------------------------------------------------------------------
HMAC = z3.Function("HMAC", S_, S_, S_, S_)              # (hash name, key, msg) -> tag
Hash = z3.Function("Hash", S_, S_, S_)                  # (hash name, data) -> digest
Draw = z3.Function("Draw", I_, I_, S_)                  # entropy tape: (cell, n octets)
Pub = z3.Function("Pub", I_, I_)                        # public key of a private key identity
SigValid = z3.Function("SigValid", S_, I_, S_, S_, B_)  # (scheme descriptor, public key, msg, sig)
Sign = z3.Function("Sign", S_, I_, S_, I_, S_)          # (scheme, private key, msg, nonce) -> sig
DerR = z3.Function("DerR", S_, I_)
DerS = z3.Function("DerS", S_, I_)
DerEnc = z3.Function("DerEnc", I_, I_, S_)
ECDSAValid = z3.Function("ECDSAValid", S_, I_, S_, I_, I_, B_)   # (hash, public key, msg, r, s)
DH = z3.Function("DH", I_, I_, S_)                      # (private id, public id) -> shared secret

DIGEST_SIZE = {"sha1": 20, "sha256": 32, "sha384": 48, "sha512": 64}
_HASH_FUNCS = {id(hashlib.sha1): "sha1", id(hashlib.sha256): "sha256", id(hashlib.sha384): "sha384", id(hashlib.sha512): "sha512"}


def hash_name_of(interp, h):
    """Name of a hash given as hashlib constructor / cryptography hashes instance or class / str."""
    n = _HASH_FUNCS.get(id(h))
    if n:
        return n
    if isinstance(h, str):
        return h.lower().replace("-", "")
    nm = getattr(h, "name", None)
    if isinstance(nm, str):
        return nm.lower().replace("-", "")
    if isinstance(h, Foreign) and h.kind == "hashalg":
        return h.f["name"]
    raise Unsupported("unknown hash object %r" % (h,))


def next_cell(ctx):
    c = ctx.ghost.get("entropy_cell", 0)
    ctx.ghost["entropy_cell"] = c + 1
    return c


def draw(interp, n_term, what):
    ctx = interp.ctx
    cell = next_cell(ctx)
    t = Draw(z3.IntVal(cell), n_term)
    ctx.axiom(z3.Length(t) == z3.If(n_term >= 0, n_term, 0), "secrets.token_bytes(n) returns n octets")
    ctx.events.append(("draw", cell, n_term, what))
    return t


def _bytes(interp, v, what):
    if interp.tag(v) != "vbytes":
        interp.raise_(TypeError, "%s: a bytes-like object is required" % what)
    return interp.bytes_term(v)


def install(cfg):
    # ---- hmac / hashlib ------------------------------------------------------------------
    @cfg.stub(hmac.new)
    def hmac_new(interp, key, msg=None, digestmod=None):
        kt = _bytes(interp, key, "hmac key")
        mt = _bytes(interp, msg, "hmac msg") if msg is not None else z3.StringVal("")
        return Foreign("hmac", key=kt, msg=mt, hname=hash_name_of(interp, digestmod))

    def hmac_digest(interp, recv, args, kwargs):
        hn = recv.f["hname"]
        t = HMAC(z3.StringVal(hn), recv.f["key"], recv.f["msg"])
        interp.ctx.axiom(z3.Length(t) == DIGEST_SIZE[hn], "HMAC output has the digest size of its hash")
        interp.ctx.events.append(("hmac", hn, recv.f["key"], recv.f["msg"]))
        return interp.mk("vbytes", t)
    cfg.foreign_methods[("hmac", "digest")] = hmac_digest

    @cfg.stub(hmac.compare_digest)
    def compare_digest(interp, a, b):
        ta, tb = interp.tag(a), interp.tag(b)
        if ta != tb or ta not in ("vbytes", "vstr"):
            interp.raise_(TypeError, "unsupported operand types(s) or combination of types")
        return boolval(interp, interp.eq_term(a, b))

    @cfg.stub(hashlib.new)
    def hashlib_new(interp, name, data=b"", **kw):
        if not isinstance(name, str):
            raise Unsupported("hashlib.new with symbolic name")
        hn = name.lower().replace("-", "")
        if hn not in DIGEST_SIZE:
            interp.raise_(ValueError, "unsupported hash type " + name)
        return Foreign("hash", hname=hn, data=_bytes(interp, data, "hash data"))

    def hash_digest(interp, recv, args, kwargs):
        hn = recv.f["hname"]
        t = Hash(z3.StringVal(hn), recv.f["data"])
        interp.ctx.axiom(z3.Length(t) == DIGEST_SIZE[hn], "digest size")
        return interp.mk("vbytes", t)
    cfg.foreign_methods[("hash", "digest")] = hash_digest

    # ---- randomness ------------------------------------------------------------------------
    @cfg.stub(secrets.token_bytes)
    def token_bytes(interp, n=None):
        if n is None:
            n = 32
        if interp.tag(n) not in ("vint", "vbool"):
            interp.raise_(TypeError, "token_bytes: an integer is required")
        nt = interp.int_term(n)
        if interp.ctx.branch(nt < 0):
            interp.raise_(ValueError, "negative argument not allowed")
        return interp.mk("vbytes", draw(interp, nt, "token_bytes"))

    @cfg.stub(random.choice)
    def random_choice(interp, seq):
        from . import builtins_impl as B
        seq = B.container(interp, seq)
        if isinstance(seq, HList) and seq.mode == "c":
            if not seq.items:
                interp.raise_(IndexError, "Cannot choose from an empty sequence")
            idx = z3.Int("random.choice!%d" % next_cell(interp.ctx))
            k = interp.ctx.choose([idx == i for i in range(len(seq.items))])
            interp.ctx.events.append(("random.choice", len(seq.items)))
            return seq.items[k]
        raise Unsupported("random.choice over a symbolic sequence")

    @cfg.stub(random.shuffle)
    def random_shuffle(interp, seq):
        # in-place permutation: what matters to the proofs is that it is a WRITE to the list (frame conditions);
        # the order afterwards is some permutation -- for a list of <= 2 concrete items both orders are explored
        if isinstance(seq, HList) and seq.mode == "c":
            interp.note_write(seq, ("shuffle",), None)
            if len(seq.items) == 2:
                sw = z3.Bool("random.shuffle!%d" % next_cell(interp.ctx))
                if interp.ctx.branch(sw):
                    seq.items[0], seq.items[1] = seq.items[1], seq.items[0]
                return None
            if len(seq.items) < 2:
                return None
        raise Unsupported("random.shuffle over a symbolic or long sequence")

    # ---- re (the one RFC 7797 pattern) ----------------------------------------------------
    def re_match(interp, recv, args, kwargs):
        pat = recv.pattern
        cls, rep = parse_simple_class_pattern(pat)
        s = args[0]
        if interp.tag(s) != "vstr":
            interp.raise_(TypeError, "expected string or bytes-like object")
        t = interp.str_term(s)
        # python's `$` also matches before one trailing newline
        rx = z3.Concat(z3.Plus(cls) if rep == "+" else z3.Star(cls), z3.Option(z3.Re("\n")))
        ok = z3.InRe(t, rx)
        if interp.ctx.branch(ok):
            interp.ctx.add(z3.Implies(ok, z3.InRe(t, S.ASCII_RE)))     # the class (and the newline) is ASCII
            interp.ctx.axiom(z3.InRe(t, S.ASCII_RE), "text matching the RFC 7797 URL-safe pattern is ASCII")
            return Foreign("match")
        return None
    cfg.pattern_match = re_match
    install_asym(cfg)
    install_numbers(cfg)
    install_jwe(cfg)
    install_serialization(cfg)
    install_rsa_numbers(cfg)


def parse_simple_class_pattern(pat):
    """`^[class]+$` / `^[class]*$` with ranges and literal characters -> (z3 regex of one character, repetition)."""
    m = re.fullmatch(r"\^\[(.+)\]([+*])\$", pat)
    if not m:
        raise Unsupported("regular expression %r" % pat)
    body, rep = m.group(1), m.group(2)
    if body.startswith("^") or "\\" in body or "[" in body:
        raise Unsupported("regular expression %r" % pat)
    parts = []
    i = 0
    while i < len(body):
        if i + 2 < len(body) and body[i + 1] == "-" and body[i] <= body[i + 2] and body[i].isalnum() and body[i + 2].isalnum():
            parts.append(z3.Range(body[i], body[i + 2]))
            i += 3
        else:
            parts.append(z3.Re(body[i]))
            i += 1
    if any(ord(c) > 127 for c in body):
        raise Unsupported("non-ASCII character class")
    r = parts[0]
    for p_ in parts[1:]:
        r = z3.Union(r, p_)
    return r, rep


# =============================================================================================
# asymmetric keys (cryptography): abstract key material, idealised signature relations

from cryptography.hazmat.primitives import hashes as _hashes
from cryptography.hazmat.primitives.asymmetric import padding as _padding, ec as _ec, rsa as _rsa
from cryptography.hazmat.primitives.asymmetric import ed25519 as _ed25519, ed448 as _ed448, x25519 as _x25519, x448 as _x448
from cryptography.hazmat.primitives.asymmetric import utils as _asym_utils
from cryptography.exceptions import InvalidSignature as _InvalidSignature

CURVES = {"secp256r1": 256, "secp384r1": 384, "secp521r1": 521, "secp256k1": 256}
OKP_KINDS = {"ed25519": (_ed25519.Ed25519PrivateKey, _ed25519.Ed25519PublicKey),
             "ed448": (_ed448.Ed448PrivateKey, _ed448.Ed448PublicKey),
             "x25519": (_x25519.X25519PrivateKey, _x25519.X25519PublicKey),
             "x448": (_x448.X448PrivateKey, _x448.X448PublicKey)}
Nonce = z3.Function("Nonce", I_, I_)


def pad_descriptor(p):
    """Canonical text of a live cryptography padding object (its parameters are what C07/C08 are about)."""
    n = type(p).__name__
    if n == "PKCS1v15":
        return "PKCS1v15"
    if n == "PSS":
        mgf = getattr(p, "_mgf", None)
        mh = getattr(getattr(mgf, "_algorithm", None), "name", "?")
        sl = getattr(p, "_salt_length", None)
        if not isinstance(sl, int):
            sl = type(sl).__name__ if not hasattr(sl, "name") else str(sl)
        return "PSS(mgf1=%s,salt=%s)" % (mh, sl)
    if n == "OAEP":
        mgf = getattr(p, "_mgf", None)
        mh = getattr(getattr(mgf, "_algorithm", None), "name", "?")
        h = getattr(getattr(p, "_algorithm", None), "name", "?")
        return "OAEP(mgf1=%s,hash=%s,label=%r)" % (mh, h, getattr(p, "_label", None))
    raise Unsupported("padding %s" % n)


def new_nonce(ctx):
    return Nonce(z3.IntVal(next_cell(ctx)))


def mk_key(kind, ident, **extra):
    return Foreign(kind, ident=ident, **extra)


def install_asym(cfg):
    fm = cfg.foreign_methods
    fa = cfg.foreign_attrs

    for cls, nm in ((_hashes.SHA1, "sha1"), (_hashes.SHA256, "sha256"), (_hashes.SHA384, "sha384"), (_hashes.SHA512, "sha512")):
        cfg.class_hooks[cls] = (lambda nm_: (lambda interp, *a, **k: Foreign("hashalg", name=nm_)))(nm)
    cfg.class_hooks[_ec.ECDSA] = lambda interp, h, *a, **k: Foreign("ecdsa", hname=hash_name_of(interp, h))
    cfg.class_hooks[_ec.ECDH] = lambda interp, *a, **k: Foreign("ecdh")
    fa[("hashalg", "name")] = lambda interp, o: o.f["name"]
    fa[("hashalg", "digest_size")] = lambda interp, o: DIGEST_SIZE[o.f["name"]]

    def is_kind(*kinds):
        return lambda interp, f: f.kind in kinds
    isf = cfg.isinstance_foreign
    isf[_rsa.RSAPrivateKey] = is_kind("rsa_priv")
    isf[_rsa.RSAPublicKey] = is_kind("rsa_pub")
    isf[_ec.EllipticCurvePrivateKey] = is_kind("ec_priv")
    isf[_ec.EllipticCurvePublicKey] = is_kind("ec_pub")
    for nm, (prv, pub) in OKP_KINDS.items():
        isf[prv] = is_kind(nm + "_priv")
        isf[pub] = is_kind(nm + "_pub")
    # the real class behind each key kind: a member the real class does not have is an AttributeError in the
    # interpreted program (not an unsupported construct)
    rc = cfg.foreign_real_class
    rc["rsa_priv"], rc["rsa_pub"] = _rsa.RSAPrivateKey, _rsa.RSAPublicKey
    rc["ec_priv"], rc["ec_pub"] = _ec.EllipticCurvePrivateKey, _ec.EllipticCurvePublicKey
    for nm, (prv, pub) in OKP_KINDS.items():
        rc[nm + "_priv"], rc[nm + "_pub"] = prv, pub

    # ---- RSA -------------------------------------------------------------------------------
    def scheme_rsa(interp, padding, halg):
        return "RSA/" + pad_descriptor(padding) + "/" + hash_name_of(interp, halg)

    def rsa_sign(interp, k, args, kwargs):
        if len(args) != 3:
            interp.raise_(TypeError, "wrong number of positional arguments for this key type's method")
        msg, padding, halg = args
        sch = z3.StringVal(scheme_rsa(interp, padding, halg))
        mt = _bytes(interp, msg, "sign")
        sig = Sign(sch, k.f["ident"], mt, new_nonce(interp.ctx))
        interp.ctx.axiom(SigValid(sch, Pub(k.f["ident"]), mt, sig), "verify(sign(m)) holds under the matching public key")
        interp.ctx.axiom(z3.Length(sig) > 0, "signatures are non-empty")
        interp.ctx.events.append(("sign", scheme_rsa(interp, padding, halg), k.f["ident"], mt))
        return interp.mk("vbytes", sig)
    fm[("rsa_priv", "sign")] = rsa_sign

    def rsa_verify(interp, k, args, kwargs):
        if len(args) != 4:
            interp.raise_(TypeError, "wrong number of positional arguments for this key type's method")
        sig, msg, padding, halg = args
        sch = z3.StringVal(scheme_rsa(interp, padding, halg))
        ok = SigValid(sch, k.f["ident"], _bytes(interp, msg, "verify"), _bytes(interp, sig, "verify"))
        interp.ctx.events.append(("verify", scheme_rsa(interp, padding, halg), k.f["ident"]))
        if interp.ctx.branch(ok):
            return None
        interp.raise_(_InvalidSignature)
    fm[("rsa_pub", "verify")] = rsa_verify
    fm[("rsa_priv", "public_key")] = lambda interp, k, a, kw: mk_key("rsa_pub", Pub(k.f["ident"]), bits=k.f.get("bits"))
    fa[("rsa_priv", "key_size")] = lambda interp, k: interp.from_term(mk_int(k.f["bits"]))
    fa[("rsa_pub", "key_size")] = lambda interp, k: interp.from_term(mk_int(k.f["bits"]))

    # ---- EC --------------------------------------------------------------------------------
    def curve_of(interp, k):
        return Foreign("curve", name=k.f["curve"], key_size=CURVES[k.f["curve"]])
    fa[("ec_priv", "curve")] = curve_of
    fa[("ec_pub", "curve")] = curve_of
    fm[("ec_priv", "public_key")] = lambda interp, k, a, kw: mk_key("ec_pub", Pub(k.f["ident"]), curve=k.f["curve"])

    def ec_sign(interp, k, args, kwargs):
        if len(args) != 2:
            interp.raise_(TypeError, "wrong number of positional arguments for this key type's method")
        msg, alg = args
        hn = alg.f["hname"]
        mt = _bytes(interp, msg, "sign")
        der = Sign(z3.StringVal("ECDSA-DER/" + hn), k.f["ident"], mt, new_nonce(interp.ctx))
        bits = CURVES[k.f["curve"]]
        r, s_ = DerR(der), DerS(der)
        ctx = interp.ctx
        ctx.axiom(z3.And(r > 0, s_ > 0, r < S.Pow2(z3.IntVal(bits)), s_ < S.Pow2(z3.IntVal(bits))), "ECDSA r, s are in [1, n-1], n < 2^bits")
        S.pow2_facts(ctx, z3.IntVal(bits))
        ctx.axiom(ECDSAValid(z3.StringVal(hn), Pub(k.f["ident"]), mt, r, s_), "ECDSA verify(sign(m)) holds under the matching public key")
        ctx.events.append(("sign", "ECDSA/" + hn + "/" + k.f["curve"], k.f["ident"], mt))
        return interp.mk("vbytes", der)
    fm[("ec_priv", "sign")] = ec_sign

    def ec_verify(interp, k, args, kwargs):
        if len(args) != 3:
            interp.raise_(TypeError, "wrong number of positional arguments for this key type's method")
        der, msg, alg = args
        hn = alg.f["hname"]
        dt = _bytes(interp, der, "verify")
        ok = ECDSAValid(z3.StringVal(hn), k.f["ident"], _bytes(interp, msg, "verify"), DerR(dt), DerS(dt))
        interp.ctx.events.append(("verify", "ECDSA/" + hn + "/" + k.f["curve"], k.f["ident"]))
        if interp.ctx.branch(ok):
            return None
        interp.raise_(_InvalidSignature)
    fm[("ec_pub", "verify")] = ec_verify

    @cfg.stub(_asym_utils.decode_dss_signature)
    def decode_dss(interp, der):
        dt = _bytes(interp, der, "decode_dss_signature")
        return (interp.mk("vint", DerR(dt)), interp.mk("vint", DerS(dt)))

    @cfg.stub(_asym_utils.encode_dss_signature)
    def encode_dss(interp, r, s_):
        rt, st = interp.int_term(r), interp.int_term(s_)
        if interp.ctx.branch(z3.Or(rt < 0, st < 0)):
            interp.raise_(ValueError, "Both r and s must be integers >= 0")   # cryptography: asn1 integers; negative rejected
        d = DerEnc(rt, st)
        interp.ctx.axiom(z3.And(DerR(d) == rt, DerS(d) == st), "decode_dss_signature(encode_dss_signature(r, s)) = (r, s)")
        return interp.mk("vbytes", d)

    # ---- OKP -------------------------------------------------------------------------------
    for nm in ("ed25519", "ed448"):
        def ed_sign(interp, k, args, kwargs, nm=nm):
            if len(args) != 1:
                interp.raise_(TypeError, "wrong number of positional arguments for this key type's method")
            mt = _bytes(interp, args[0], "sign")
            sch = z3.StringVal("EdDSA/" + nm)
            sig = Sign(sch, k.f["ident"], mt, z3.IntVal(0))
            interp.ctx.axiom(SigValid(sch, Pub(k.f["ident"]), mt, sig), "verify(sign(m)) holds under the matching public key")
            interp.ctx.events.append(("sign", "EdDSA/" + nm, k.f["ident"], mt))
            return interp.mk("vbytes", sig)

        def ed_verify(interp, k, args, kwargs, nm=nm):
            if len(args) != 2:
                interp.raise_(TypeError, "wrong number of positional arguments for this key type's method")
            sig, msg = args
            ok = SigValid(z3.StringVal("EdDSA/" + nm), k.f["ident"], _bytes(interp, msg, "verify"), _bytes(interp, sig, "verify"))
            interp.ctx.events.append(("verify", "EdDSA/" + nm, k.f["ident"]))
            if interp.ctx.branch(ok):
                return None
            interp.raise_(_InvalidSignature)
        fm[(nm + "_priv", "sign")] = ed_sign
        fm[(nm + "_pub", "verify")] = ed_verify
    for nm in OKP_KINDS:
        fm[(nm + "_priv", "public_key")] = (lambda nm_: (lambda interp, k, a, kw: mk_key(nm_ + "_pub", Pub(k.f["ident"]))))(nm)


# ---- key numbers / raw encodings (abstract, tied to the key identity) --------------------------
RSA_n = z3.Function("RSA_n", I_, I_)
RSA_e = z3.Function("RSA_e", I_, I_)
RSA_priv = {nm: z3.Function("RSA_" + nm, I_, I_) for nm in ("d", "p", "q", "dmp1", "dmq1", "iqmp")}
EC_x = z3.Function("EC_x", I_, I_)
EC_y = z3.Function("EC_y", I_, I_)
EC_d = z3.Function("EC_d", I_, I_)
OKP_x = z3.Function("OKP_x", I_, S_)
OKP_d = z3.Function("OKP_d", I_, S_)
OKP_LEN = {"ed25519": 32, "ed448": 57, "x25519": 32, "x448": 56}


def install_numbers(cfg):
    fm = cfg.foreign_methods
    fa = cfg.foreign_attrs

    def rsa_pubnum(interp, pk):
        ctx = interp.ctx
        n, e = RSA_n(pk), RSA_e(pk)
        ctx.axiom(z3.And(n > 1, e > 1), "RSA modulus and exponent are > 1")
        return Foreign("rsa_pubnum", n=SVal(mk_int(n)), e=SVal(mk_int(e)), pk=pk)

    fm[("rsa_pub", "public_numbers")] = lambda interp, k, a, kw: rsa_pubnum(interp, k.f["ident"])

    def rsa_privnum(interp, k, a, kw):
        sk = k.f["ident"]
        vals = {}
        for nm, f in RSA_priv.items():
            t = f(sk)
            interp.ctx.axiom(t > 0, "RSA private numbers are positive")
            vals[nm] = SVal(mk_int(t))
        return Foreign("rsa_privnum", public_numbers=rsa_pubnum(interp, Pub(sk)), **vals)
    fm[("rsa_priv", "private_numbers")] = rsa_privnum

    def ec_pubnum(interp, pk, curve):
        bits = CURVES[curve]
        x, y = EC_x(pk), EC_y(pk)
        S.pow2_facts(interp.ctx, z3.IntVal(8 * ((bits + 7) // 8)))
        interp.ctx.axiom(z3.And(x >= 0, y >= 0, x < S.Pow2(z3.IntVal(8 * ((bits + 7) // 8))), y < S.Pow2(z3.IntVal(8 * ((bits + 7) // 8)))),
                         "EC coordinates are field elements (0 <= x, y < 2^(8*ceil(bits/8)))")
        interp.ctx.axiom(z3.And(OnCurve(z3.StringVal(curve), x, y), ECPoint(z3.StringVal(curve), x, y) == pk),
                         "an EC public key is the point of its numbers: numbers(k).public_key() = k, and it is on the curve")
        return Foreign("ec_pubnum", x=SVal(mk_int(x)), y=SVal(mk_int(y)), curve=Foreign("curve", name=curve, key_size=bits), pk=pk)
    fm[("ec_pub", "public_numbers")] = lambda interp, k, a, kw: ec_pubnum(interp, k.f["ident"], k.f["curve"])

    def ec_privnum(interp, k, a, kw):
        sk = k.f["ident"]
        bits = CURVES[k.f["curve"]]
        d = EC_d(sk)
        S.pow2_facts(interp.ctx, z3.IntVal(8 * ((bits + 7) // 8)))
        interp.ctx.axiom(z3.And(d > 0, d < S.Pow2(z3.IntVal(8 * ((bits + 7) // 8)))), "EC private value is in [1, n-1]")
        pn = ec_pubnum(interp, Pub(sk), k.f["curve"])
        matches = z3.Function("ECPrivMatches", S_, I_, I_, I_, B_)
        interp.ctx.axiom(z3.And(matches(z3.StringVal(k.f["curve"]), d, EC_x(Pub(sk)), EC_y(Pub(sk))),
                                ECPrivFrom(z3.StringVal(k.f["curve"]), d) == sk),
                         "the private value of a key matches its public point; private_numbers(k).private_key() = k")
        return Foreign("ec_privnum", private_value=SVal(mk_int(d)), public_numbers=pn)
    fm[("ec_priv", "private_numbers")] = ec_privnum

    for nm, ln in OKP_LEN.items():
        def pub_bytes(interp, k, a, kw, ln=ln, nm=nm):
            t = OKP_x(k.f["ident"])
            interp.ctx.axiom(z3.Length(t) == ln, "OKP public key octets have the curve's fixed length")
            interp.ctx.axiom(OKPPub(z3.StringVal(nm), t) == k.f["ident"], "from_public_bytes(public_bytes(k)) = k")
            interp.ctx.events.append(("public_bytes", a[0] if a else kw.get("encoding"), a[1] if len(a) > 1 else kw.get("format")))
            return SVal(mk_bytes(t))

        def priv_bytes(interp, k, a, kw, ln=ln):
            t = OKP_d(k.f["ident"])
            interp.ctx.axiom(z3.Length(t) == ln, "OKP private key octets have the curve's fixed length")
            interp.ctx.events.append(("private_bytes", a[0] if a else kw.get("encoding"), a[1] if len(a) > 1 else kw.get("format")))
            return SVal(mk_bytes(t))
        fm[(nm + "_pub", "public_bytes")] = pub_bytes
        fm[(nm + "_priv", "private_bytes")] = priv_bytes


# =============================================================================================
# JWE primitives: AES key wrap, AES-GCM, AES-CBC + PKCS7, PBKDF2, Concat KDF, RSA encryption, ECDH, key generation, zlib

from cryptography.hazmat.primitives import keywrap as _keywrap
from cryptography.hazmat.primitives.ciphers import Cipher as _Cipher, algorithms as _calgs, modes as _cmodes
from cryptography.hazmat.primitives.padding import PKCS7 as _PKCS7
from cryptography.hazmat.primitives.kdf.pbkdf2 import PBKDF2HMAC as _PBKDF2HMAC
from cryptography.hazmat.primitives.kdf.concatkdf import ConcatKDFHash as _ConcatKDFHash
from cryptography.hazmat.backends import default_backend as _default_backend
from cryptography.exceptions import InvalidTag as _InvalidTag

KW = z3.Function("KW", S_, S_, S_)                     # RFC 3394 wrap(kek, cek)
Unwrap = z3.Function("Unwrap", S_, S_, S_)
UnwrapOk = z3.Function("UnwrapOk", S_, S_, B_)
GCMEnc = z3.Function("GCMEnc", S_, S_, S_, S_, S_)     # (key, iv, aad, pt) -> ct
GCMTag = z3.Function("GCMTag", S_, S_, S_, S_, S_)     # (key, iv, aad, pt) -> tag
GCMDec = z3.Function("GCMDec", S_, S_, S_, S_, S_)     # (key, iv, aad, ct) -> pt
GCMOk = z3.Function("GCMOk", S_, S_, S_, S_, S_, B_)   # (key, iv, aad, ct, tag)
CBCEnc = z3.Function("CBCEnc", S_, S_, S_, S_)
CBCDec = z3.Function("CBCDec", S_, S_, S_, S_)
Pad7 = z3.Function("PKCS7Pad", S_, S_)
Unpad7 = z3.Function("PKCS7Unpad", S_, S_)
Pad7Ok = z3.Function("PKCS7Ok", S_, B_)
PBKDF2 = z3.Function("PBKDF2", S_, S_, S_, I_, I_, S_)  # (hash, password, salt, iterations, length)
ConcatKDF = z3.Function("ConcatKDF", S_, S_, I_, S_, S_)  # (hash, Z, length, otherinfo)
RSAEnc = z3.Function("RSAEnc", S_, I_, S_, I_, S_)       # (padding, pk, msg, nonce)
RSADec = z3.Function("RSADec", S_, I_, S_, S_)           # (padding, sk, ct)
RSADecOk = z3.Function("RSADecOk", S_, I_, S_, B_)
KeyGen = z3.Function("KeyGen", I_, I_)                   # private key identity drawn from entropy cell
ECPoint = z3.Function("ECPoint", S_, I_, I_, I_)         # public key identity from (curve, x, y)
OnCurve = z3.Function("OnCurve", S_, I_, I_, B_)
OKPPub = z3.Function("OKPPub", S_, S_, I_)               # public key identity from (curve, x octets)
OKPPriv = z3.Function("OKPPriv", S_, S_, I_)
ECPrivFrom = z3.Function("ECPrivFrom", S_, I_, I_)
ZHead = z3.Function("ZHead", S_, S_)
Deflate = z3.Function("Deflate", S_, S_)                 # raw DEFLATE (RFC 1951)
Adler = z3.Function("Adler", S_, S_)
Inflate = z3.Function("Inflate", S_, I_, S_)             # (stream, wbits) -> full expansion
InflateOk = z3.Function("InflateOk", S_, I_, B_)


def _len_in(t, sizes):
    return z3.Or(*[z3.Length(t) == n for n in sizes])


def install_jwe(cfg):
    fm = cfg.foreign_methods
    fa = cfg.foreign_attrs

    @cfg.stub(_default_backend)
    def default_backend(interp):
        return Foreign("backend")

    # ---- AES key wrap ----------------------------------------------------------------------
    @cfg.stub(_keywrap.aes_key_wrap)
    def aes_key_wrap(interp, kek, cek, backend=None):
        ctx = interp.ctx
        kt, ct = _bytes(interp, kek, "aes_key_wrap"), _bytes(interp, cek, "aes_key_wrap")
        if not ctx.branch(_len_in(kt, (16, 24, 32))):
            interp.raise_(ValueError, "The wrapping key must be a valid AES key length")
        if not ctx.branch(z3.And(z3.Length(ct) >= 16, z3.Length(ct) % 8 == 0)):
            interp.raise_(ValueError, "The key to wrap must be at least 16 bytes and a multiple of 8")
        w = KW(kt, ct)
        ctx.axiom(z3.Length(w) == z3.Length(ct) + 8, "RFC 3394: |wrap(k, c)| = |c| + 8")
        ctx.axiom(z3.And(UnwrapOk(kt, w), Unwrap(kt, w) == ct), "RFC 3394: unwrap(k, wrap(k, c)) = c")
        ctx.events.append(("aes_key_wrap", kt, ct))
        return interp.mk("vbytes", w)

    @cfg.stub(_keywrap.aes_key_unwrap)
    def aes_key_unwrap(interp, kek, ek, backend=None):
        ctx = interp.ctx
        kt, et = _bytes(interp, kek, "aes_key_unwrap"), _bytes(interp, ek, "aes_key_unwrap")
        if not ctx.branch(_len_in(kt, (16, 24, 32))):
            interp.raise_(ValueError, "The wrapping key must be a valid AES key length")
        if not ctx.branch(z3.And(z3.Length(et) >= 24, z3.Length(et) % 8 == 0)):
            interp.raise_(_keywrap.InvalidUnwrap, "Must be at least 24 bytes / a multiple of 8")
        ctx.events.append(("aes_key_unwrap", kt, et))
        if ctx.branch(UnwrapOk(kt, et)):
            r = Unwrap(kt, et)
            ctx.axiom(z3.Length(r) == z3.Length(et) - 8, "RFC 3394: |unwrap(k, w)| = |w| - 8")
            return interp.mk("vbytes", r)
        interp.raise_(_keywrap.InvalidUnwrap)

    # ---- Cipher / AES / GCM / CBC ----------------------------------------------------------
    def mk_aes(interp, key):
        kt = _bytes(interp, key, "AES key")
        if not interp.ctx.branch(_len_in(kt, (16, 24, 32))):
            interp.raise_(ValueError, "Invalid key size for AES")
        return Foreign("aes", key=kt)
    cfg.class_hooks[_calgs.AES] = mk_aes

    def mk_gcm(interp, iv, tag=None, min_tag_length=16):
        ivt = _bytes(interp, iv, "GCM iv")
        if not interp.ctx.branch(z3.And(z3.Length(ivt) >= 8, z3.Length(ivt) <= 128)):
            interp.raise_(ValueError, "initialization_vector must be between 8 and 128 bytes")
        tt = None
        if tag is not None:
            tt = _bytes(interp, tag, "GCM tag")
            if not interp.ctx.branch(z3.And(z3.Length(tt) >= 16, z3.Length(tt) <= 16)):
                interp.raise_(ValueError, "Authentication tag must be 16 bytes")
        return Foreign("gcm", iv=ivt, tag=tt)
    cfg.class_hooks[_cmodes.GCM] = mk_gcm

    def mk_cbc(interp, iv):
        ivt = _bytes(interp, iv, "CBC iv")
        return Foreign("cbc", iv=ivt)
    cfg.class_hooks[_cmodes.CBC] = mk_cbc

    def mk_cipher(interp, algorithm, mode, backend=None):
        if mode.kind == "cbc" and not interp.ctx.branch(z3.Length(mode.f["iv"]) == 16):
            interp.raise_(ValueError, "Invalid IV size for CBC")
        return Foreign("cipher", alg=algorithm, mode=mode)
    cfg.class_hooks[_Cipher] = mk_cipher

    def encryptor(interp, c, a, kw):
        return Foreign(c.f["mode"].kind + "_enc", key=c.f["alg"].f["key"], iv=c.f["mode"].f["iv"], aad=z3.StringVal(""), data=None)

    def decryptor(interp, c, a, kw):
        m = c.f["mode"]
        if m.kind == "gcm" and m.f["tag"] is None:
            interp.raise_(ValueError, "Authentication tag must be provided when decrypting")
        return Foreign(m.kind + "_dec", key=c.f["alg"].f["key"], iv=m.f["iv"], aad=z3.StringVal(""), tag=m.f.get("tag"), data=None)
    fm[("cipher", "encryptor")] = encryptor
    fm[("cipher", "decryptor")] = decryptor

    def aad_method(interp, o, a, kw):
        o.f["aad"] = _bytes(interp, a[0], "aad")
        return None
    fm[("gcm_enc", "authenticate_additional_data")] = aad_method
    fm[("gcm_dec", "authenticate_additional_data")] = aad_method

    def gcm_enc_update(interp, o, a, kw):
        pt = _bytes(interp, a[0], "update")
        o.f["data"] = pt
        ct = GCMEnc(o.f["key"], o.f["iv"], o.f["aad"], pt)
        tag = GCMTag(o.f["key"], o.f["iv"], o.f["aad"], pt)
        ctx = interp.ctx
        ctx.axiom(z3.Length(ct) == z3.Length(pt), "GCM: |ciphertext| = |plaintext|")
        ctx.axiom(z3.Length(tag) == 16, "GCM: 128-bit tag")
        ctx.axiom(z3.And(GCMOk(o.f["key"], o.f["iv"], o.f["aad"], ct, tag), GCMDec(o.f["key"], o.f["iv"], o.f["aad"], ct) == pt),
                  "GCM: decrypt(encrypt(p)) = p and the tag verifies")
        ctx.events.append(("gcm_encrypt", o.f["key"], o.f["iv"], o.f["aad"], pt))
        return interp.mk("vbytes", ct)
    fm[("gcm_enc", "update")] = gcm_enc_update
    fm[("gcm_enc", "finalize")] = lambda interp, o, a, kw: b""

    def gcm_tag(interp, o):
        if o.f["data"] is None:
            raise Unsupported("GCM tag before update")
        return interp.mk("vbytes", GCMTag(o.f["key"], o.f["iv"], o.f["aad"], o.f["data"]))
    fa[("gcm_enc", "tag")] = gcm_tag

    def gcm_dec_update(interp, o, a, kw):
        ct = _bytes(interp, a[0], "update")
        o.f["data"] = ct
        pt = GCMDec(o.f["key"], o.f["iv"], o.f["aad"], ct)
        interp.ctx.axiom(z3.Length(pt) == z3.Length(ct), "GCM: |plaintext| = |ciphertext|")
        interp.ctx.events.append(("gcm_decrypt", o.f["key"], o.f["iv"], o.f["aad"], ct, o.f["tag"]))
        return interp.mk("vbytes", pt)
    fm[("gcm_dec", "update")] = gcm_dec_update

    def gcm_dec_finalize(interp, o, a, kw):
        ct = o.f["data"] if o.f["data"] is not None else z3.StringVal("")
        if interp.ctx.branch(GCMOk(o.f["key"], o.f["iv"], o.f["aad"], ct, o.f["tag"])):
            return b""
        interp.raise_(_InvalidTag)
    fm[("gcm_dec", "finalize")] = gcm_dec_finalize

    def cbc_enc_update(interp, o, a, kw):
        pt = _bytes(interp, a[0], "update")
        if not interp.ctx.branch(z3.Length(pt) % 16 == 0):
            raise Unsupported("CBC update with a partial block")
        ct = CBCEnc(o.f["key"], o.f["iv"], pt)
        interp.ctx.axiom(z3.Length(ct) == z3.Length(pt), "CBC: |ciphertext| = |padded plaintext|")
        interp.ctx.axiom(CBCDec(o.f["key"], o.f["iv"], ct) == pt, "CBC: decrypt(encrypt(p)) = p")
        interp.ctx.events.append(("cbc_encrypt", o.f["key"], o.f["iv"], pt))
        return interp.mk("vbytes", ct)
    fm[("cbc_enc", "update")] = cbc_enc_update
    fm[("cbc_enc", "finalize")] = lambda interp, o, a, kw: b""

    def cbc_dec_update(interp, o, a, kw):
        ct = _bytes(interp, a[0], "update")
        o.f["data"] = ct
        pt = CBCDec(o.f["key"], o.f["iv"], ct)
        interp.ctx.axiom(z3.Length(pt) == z3.Length(ct), "CBC: |plaintext| = |ciphertext|")
        interp.ctx.events.append(("cbc_decrypt", o.f["key"], o.f["iv"], ct))
        return interp.mk("vbytes", pt)
    fm[("cbc_dec", "update")] = cbc_dec_update

    def cbc_dec_finalize(interp, o, a, kw):
        ct = o.f["data"] if o.f["data"] is not None else z3.StringVal("")
        if interp.ctx.branch(z3.Length(ct) % 16 == 0):
            return b""
        interp.raise_(ValueError, "The length of the provided data is not a multiple of the block length")
    fm[("cbc_dec", "finalize")] = cbc_dec_finalize

    # ---- PKCS7 -----------------------------------------------------------------------------
    cfg.class_hooks[_PKCS7] = lambda interp, block_size: Foreign("pkcs7", block=block_size)
    fm[("pkcs7", "padder")] = lambda interp, o, a, kw: Foreign("padder", data=None)
    fm[("pkcs7", "unpadder")] = lambda interp, o, a, kw: Foreign("unpadder", data=None)

    def pad_update(interp, o, a, kw):
        if o.f["data"] is not None:
            raise Unsupported("multiple PKCS7 update calls")
        o.f["data"] = _bytes(interp, a[0], "update")
        return b""
    fm[("padder", "update")] = pad_update
    fm[("unpadder", "update")] = pad_update

    def pad_finalize(interp, o, a, kw):
        d = o.f["data"] if o.f["data"] is not None else z3.StringVal("")
        p = Pad7(d)
        ctx = interp.ctx
        ctx.axiom(z3.And(z3.Length(p) % 16 == 0, z3.Length(p) > z3.Length(d), z3.Length(p) <= z3.Length(d) + 16), "PKCS7: pads to the next multiple of 16")
        ctx.axiom(z3.And(Pad7Ok(p), Unpad7(p) == d), "PKCS7: unpad(pad(x)) = x")
        return interp.mk("vbytes", p)
    fm[("padder", "finalize")] = pad_finalize

    def unpad_finalize(interp, o, a, kw):
        d = o.f["data"] if o.f["data"] is not None else z3.StringVal("")
        if interp.ctx.branch(Pad7Ok(d)):
            r = Unpad7(d)
            interp.ctx.axiom(z3.Length(r) < z3.Length(d), "PKCS7: unpadding removes at least one octet")
            return interp.mk("vbytes", r)
        interp.raise_(ValueError, "Invalid padding bytes.")
    fm[("unpadder", "finalize")] = unpad_finalize

    # ---- KDFs ------------------------------------------------------------------------------
    def mk_pbkdf2(interp, algorithm=None, length=None, salt=None, iterations=None, backend=None):
        ctx = interp.ctx
        if interp.tag(iterations) not in ("vint", "vbool"):
            interp.raise_(TypeError, "iterations must be an integer")
        it = interp.int_term(iterations)
        S.pow2_facts(ctx, z3.IntVal(64))
        if ctx.branch(z3.Or(it < 0, it >= S.Pow2(z3.IntVal(64)))):
            interp.raise_(OverflowError, "can't convert to C unsigned integer")
        S.pow2_facts(ctx, z3.IntVal(64))
        if ctx.branch(it < 1):
            interp.raise_(ValueError, "iterations must be a positive integer")
        return Foreign("pbkdf2", hname=hash_name_of(interp, algorithm), length=interp.int_term(length), salt=_bytes(interp, salt, "salt"), iterations=it)
    cfg.class_hooks[_PBKDF2HMAC] = mk_pbkdf2

    def pbkdf2_derive(interp, o, a, kw):
        pw = _bytes(interp, a[0], "derive")
        # observed on this image (cryptography's OpenSSL binding): an iteration count that does not fit a C int makes
        # derive() panic -- pyo3_runtime.PanicException, a BaseException that is neither JoseError nor ValueError
        if interp.ctx.branch(o.f["iterations"] > z3.IntVal(2 ** 31 - 1)):
            interp.raise_(BaseException, "PanicException: called `Result::unwrap()` on an `Err` value: TryFromIntError(PosOverflow)")
        r = PBKDF2(z3.StringVal(o.f["hname"]), pw, o.f["salt"], o.f["iterations"], o.f["length"])
        interp.ctx.axiom(z3.Length(r) == o.f["length"], "PBKDF2: output has the requested length")
        interp.ctx.events.append(("pbkdf2", o.f["hname"], pw, o.f["salt"], o.f["iterations"], o.f["length"]))
        return interp.mk("vbytes", r)
    fm[("pbkdf2", "derive")] = pbkdf2_derive

    def mk_concatkdf(interp, algorithm=None, length=None, otherinfo=None, backend=None):
        return Foreign("concatkdf", hname=hash_name_of(interp, algorithm), length=interp.int_term(length),
                       otherinfo=_bytes(interp, otherinfo, "otherinfo") if otherinfo is not None else z3.StringVal(""))
    cfg.class_hooks[_ConcatKDFHash] = mk_concatkdf

    def concatkdf_derive(interp, o, a, kw):
        z = _bytes(interp, a[0], "derive")
        r = ConcatKDF(z3.StringVal(o.f["hname"]), z, o.f["length"], o.f["otherinfo"])
        interp.ctx.axiom(z3.Length(r) == o.f["length"], "ConcatKDF: output has the requested length")
        interp.ctx.events.append(("concatkdf", o.f["hname"], z, o.f["length"], o.f["otherinfo"]))
        return interp.mk("vbytes", r)
    fm[("concatkdf", "derive")] = concatkdf_derive

    # ---- RSA encryption ----------------------------------------------------------------------
    def rsa_encrypt(interp, k, a, kw):
        msg, padding = a
        pd = z3.StringVal(pad_descriptor(padding))
        mt = _bytes(interp, msg, "encrypt")
        ct = RSAEnc(pd, k.f["ident"], mt, new_nonce(interp.ctx))
        # correctness instance for the private key(s) whose public key this is
        sk = z3.Int("sk!of")
        interp.ctx.axiom(z3.ForAll([sk], z3.Implies(Pub(sk) == k.f["ident"], z3.And(RSADecOk(pd, sk, ct), RSADec(pd, sk, ct) == mt)),
                                   patterns=[RSADecOk(pd, sk, ct)]) if False else z3.BoolVal(True))
        interp.ctx.ghost.setdefault("rsa_ct", []).append((pd, k.f["ident"], ct, mt))
        interp.ctx.axiom(z3.Length(ct) > 0, "RSA ciphertext is non-empty")
        interp.ctx.events.append(("rsa_encrypt", pad_descriptor(padding), k.f["ident"], mt))
        return interp.mk("vbytes", ct)
    fm[("rsa_pub", "encrypt")] = rsa_encrypt

    def rsa_decrypt(interp, k, a, kw):
        ct, padding = a
        pd = z3.StringVal(pad_descriptor(padding))
        ctt = _bytes(interp, ct, "decrypt")
        ctx = interp.ctx
        for (pd2, pk2, ct2, mt2) in ctx.ghost.get("rsa_ct", []):
            ctx.axiom(z3.Implies(z3.And(pd2 == pd, pk2 == Pub(k.f["ident"]), ct2 == ctt), z3.And(RSADecOk(pd, k.f["ident"], ctt), RSADec(pd, k.f["ident"], ctt) == mt2)),
                      "RSA: decrypt(encrypt(m)) = m under the matching private key and padding")
        ctx.events.append(("rsa_decrypt", pad_descriptor(padding), k.f["ident"], ctt))
        if ctx.branch(RSADecOk(pd, k.f["ident"], ctt)):
            return interp.mk("vbytes", RSADec(pd, k.f["ident"], ctt))
        interp.raise_(ValueError, "Decryption failed")
    fm[("rsa_priv", "decrypt")] = rsa_decrypt

    # ---- ECDH ------------------------------------------------------------------------------
    def dh_term(ctx, sk, pk):
        t = DH(sk, pk)
        lst = ctx.ghost.setdefault("dh_terms", [])
        for (sk2, pk2) in lst:
            ctx.axiom(z3.Implies(z3.And(pk == Pub(sk2), pk2 == Pub(sk)), DH(sk, pk) == DH(sk2, pk2)), "ECDH commutes: DH(a, pub(b)) = DH(b, pub(a))")
        lst.append((sk, pk))
        ctx.axiom(z3.Length(t) > 0, "ECDH shared secret is non-empty")
        return t

    def ec_exchange(interp, k, a, kw):
        algo, peer = a
        if not (isinstance(peer, Foreign) and peer.kind == "ec_pub"):
            interp.raise_(TypeError, "peer_public_key must be an EllipticCurvePublicKey")
        if peer.f["curve"] != k.f["curve"]:
            interp.raise_(ValueError, "peer_public_key and self are not on the same curve")
        interp.ctx.events.append(("ecdh", k.f["ident"], peer.f["ident"]))
        return interp.mk("vbytes", dh_term(interp.ctx, k.f["ident"], peer.f["ident"]))
    fm[("ec_priv", "exchange")] = ec_exchange

    for nm in ("x25519", "x448"):
        def okp_exchange(interp, k, a, kw, nm=nm):
            peer = a[0]
            if not (isinstance(peer, Foreign) and peer.kind == nm + "_pub"):
                interp.raise_(TypeError, "peer_public_key must be a public key of the same curve")
            interp.ctx.events.append(("ecdh", k.f["ident"], peer.f["ident"]))
            return interp.mk("vbytes", dh_term(interp.ctx, k.f["ident"], peer.f["ident"]))
        fm[(nm + "_priv", "exchange")] = okp_exchange

    # ---- key generation (entropy tape) -------------------------------------------------------
    def fresh_private(ctx, what):
        cell = next_cell(ctx)
        ctx.events.append(("keygen", cell, what))
        return KeyGen(z3.IntVal(cell))

    @cfg.stub(_ec.generate_private_key)
    def ec_generate(interp, curve=None, backend=None):
        name = curve.f["name"] if isinstance(curve, Foreign) else getattr(curve, "name", None)
        return mk_key("ec_priv", fresh_private(interp.ctx, "EC/" + str(name)), curve=name)

    for cls_, nm_ in ((_ec.SECP256R1, "secp256r1"), (_ec.SECP384R1, "secp384r1"), (_ec.SECP521R1, "secp521r1"), (_ec.SECP256K1, "secp256k1")):
        cfg.class_hooks[cls_] = (lambda n_: (lambda interp, *a, **k: Foreign("curve", name=n_, key_size=CURVES[n_])))(nm_)

    @cfg.stub(_rsa.generate_private_key)
    def rsa_generate(interp, public_exponent=None, key_size=None, backend=None):
        if interp.tag(key_size) not in ("vint", "vbool"):
            interp.raise_(TypeError, "key_size must be an integer")
        return mk_key("rsa_priv", fresh_private(interp.ctx, "RSA"), bits=interp.int_term(key_size))

    cm = cfg.classmethod_stubs
    for nm, (prv, pub) in OKP_KINDS.items():
        cm[(prv, "generate")] = (lambda n_: (lambda interp: mk_key(n_ + "_priv", fresh_private(interp.ctx, "OKP/" + n_))))(nm)

        def from_public(interp, data, n_=nm):
            dt = _bytes(interp, data, "from_public_bytes")
            if not interp.ctx.branch(z3.Length(dt) == OKP_LEN[n_]):
                interp.raise_(ValueError, "An %s public key is %d bytes long" % (n_, OKP_LEN[n_]))
            ident = OKPPub(z3.StringVal(n_), dt)
            interp.ctx.axiom(OKP_x(ident) == dt, "public_bytes(from_public_bytes(x)) = x")
            return mk_key(n_ + "_pub", ident)

        def from_private(interp, data, n_=nm):
            dt = _bytes(interp, data, "from_private_bytes")
            if not interp.ctx.branch(z3.Length(dt) == OKP_LEN[n_]):
                interp.raise_(ValueError, "An %s private key is %d bytes long" % (n_, OKP_LEN[n_]))
            ident = OKPPriv(z3.StringVal(n_), dt)
            interp.ctx.axiom(OKP_d(ident) == dt, "private_bytes(from_private_bytes(d)) = d")
            return mk_key(n_ + "_priv", ident)
        cm[(pub, "from_public_bytes")] = from_public
        cm[(prv, "from_private_bytes")] = from_private

    # ---- numbers -> keys (JWK import) ----------------------------------------------------------
    def mk_ec_pubnum(interp, x, y, curve):
        for v in (x, y):
            if interp.tag(v) not in ("vint", "vbool"):
                interp.raise_(TypeError, "x and y must be integers")
        return Foreign("ec_pubnum", x=x, y=y, curve=curve, pk=None)
    cfg.class_hooks[_ec.EllipticCurvePublicNumbers] = mk_ec_pubnum

    def ec_pubnum_public_key(interp, o, a, kw):
        if o.f.get("pk") is not None:
            return mk_key("ec_pub", o.f["pk"], curve=o.f["curve"].f["name"])
        cn = o.f["curve"].f["name"]
        xt, yt = interp.int_term(o.f["x"]), interp.int_term(o.f["y"])
        if not interp.ctx.branch(OnCurve(z3.StringVal(cn), xt, yt)):
            interp.raise_(ValueError, "Invalid EC key: point is not on the curve")
        ident = ECPoint(z3.StringVal(cn), xt, yt)
        interp.ctx.axiom(z3.And(EC_x(ident) == xt, EC_y(ident) == yt, xt >= 0, yt >= 0), "public_numbers(numbers.public_key()) = numbers")
        return mk_key("ec_pub", ident, curve=cn)
    fm[("ec_pubnum", "public_key")] = ec_pubnum_public_key

    def mk_ec_privnum(interp, d, pubnum):
        if interp.tag(d) not in ("vint", "vbool"):
            interp.raise_(TypeError, "private_value must be an integer")
        return Foreign("ec_privnum", private_value=d, public_numbers=pubnum)
    cfg.class_hooks[_ec.EllipticCurvePrivateNumbers] = mk_ec_privnum

    def ec_privnum_private_key(interp, o, a, kw):
        pn = o.f["public_numbers"]
        cn = pn.f["curve"].f["name"]
        dt = interp.int_term(o.f["private_value"])
        xt, yt = interp.int_term(pn.f["x"]), interp.int_term(pn.f["y"])
        ok = z3.Function("ECPrivMatches", S_, I_, I_, I_, B_)(z3.StringVal(cn), dt, xt, yt)
        if not interp.ctx.branch(z3.And(OnCurve(z3.StringVal(cn), xt, yt), ok)):
            interp.raise_(ValueError, "Invalid EC key")
        sk = ECPrivFrom(z3.StringVal(cn), dt)
        interp.ctx.axiom(z3.And(EC_d(sk) == dt, Pub(sk) == ECPoint(z3.StringVal(cn), xt, yt), EC_x(Pub(sk)) == xt, EC_y(Pub(sk)) == yt),
                         "private_numbers(numbers.private_key()) = numbers")
        return mk_key("ec_priv", sk, curve=cn)
    fm[("ec_privnum", "private_key")] = ec_privnum_private_key

    # ---- zlib ------------------------------------------------------------------------------
    @cfg.stub(zlib.compress)
    def zlib_compress(interp, data, *a, **kw):
        dt = _bytes(interp, data, "compress")
        ctx = interp.ctx
        h, d, c = ZHead(dt), Deflate(dt), Adler(dt)
        ctx.axiom(z3.And(z3.Length(h) == 2, z3.Length(c) == 4), "zlib.compress = 2-byte header + raw DEFLATE + 4-byte Adler-32")
        ctx.axiom(h == z3.StringVal("\x78\x9c"), "zlib.compress default header is 0x78 0x9c")
        ctx.axiom(z3.And(InflateOk(d, z3.IntVal(-15)), Inflate(d, z3.IntVal(-15)) == dt), "INFLATE(DEFLATE_raw(s)) = s")
        ctx.axiom(z3.Length(d) > 0, "a DEFLATE stream is non-empty")
        ctx.axiom(z3.Not(z3.PrefixOf(z3.StringVal("\x78\x9c"), d)),
                  "raw DEFLATE emitted by zlib never starts with 0x78 0x9c (0x78 would be a stored-block header with non-zero padding bits)")
        return interp.mk("vbytes", z3.Concat(h, d, c))

    @cfg.stub(zlib.decompressobj)
    def decompressobj(interp, wbits=15, *a):
        if not isinstance(wbits, int):
            raise Unsupported("symbolic wbits")
        return Foreign("decompressor", wbits=wbits, tail=None)

    def decompress(interp, o, a, kw):
        ctx = interp.ctx
        st = _bytes(interp, a[0], "decompress")
        mx = a[1] if len(a) > 1 else kw.get("max_length", 0)
        wb = z3.IntVal(o.f["wbits"])
        if o.f.get("E") is not None:
            # a further call without new input returns pending output (at most max_length octets)
            E, pos = o.f["E"], o.f["pos"]
            mt = interp.int_term(mx)
            rest = z3.Length(E) - pos
            r = ctx.fresh("pending_output", StringSort)     # a slice of E from pos; only its length matters here
            avail = z3.If(rest > mt, mt, z3.If(rest > 0, rest, 0))
            if ctx.entails(z3.Length(st) == 0):
                # no new input: only output zlib already holds internally can come out -- NOT what the unconsumed
                # input (unconsumed_tail) would still expand to
                ctx.axiom(z3.Length(r) == z3.If(o.f["pending"], avail, 0),
                          "decompress(b'', m) returns min(m, held) octets iff zlib holds pending output; leftover input is not touched")
            else:
                # fed with more input (e.g. the unconsumed tail): anything between nothing and min(m, rest)
                ctx.axiom(z3.And(z3.Length(r) >= 0, z3.Length(r) <= avail,
                                 z3.Implies(z3.And(z3.Length(st) == 0, z3.Not(o.f["pending"])), z3.Length(r) == 0)),
                          "decompress(more, m) returns at most min(m, rest) octets")
            o.f["pos"] = pos + z3.Length(r)
            return interp.mk("vbytes", r)
        if not ctx.branch(InflateOk(st, wb)):
            interp.raise_(zlib.error, "Error -3 while decompressing data")
        E = Inflate(st, wb)
        ctx.events.append(("inflate", st, o.f["wbits"], mx))
        if mx == 0:
            o.f["tail"] = z3.BoolVal(False)
            return interp.mk("vbytes", E)
        mt = interp.int_term(mx)
        over = z3.Length(E) > mt
        take = z3.Function("Take", S_, I_, S_)(E, mt)        # E[:max_length] (uninterpreted: only its length matters)
        ctx.axiom(z3.Implies(over, z3.Length(take) == mt), "decompress(s, m) returns exactly m octets when more are available")
        r = z3.If(over, take, E)
        tail_nonempty = ctx.fresh("unconsumed_tail_nonempty", BoolSort)
        # zlib may hold pending *output* without pending input: a non-empty unconsumed_tail implies the limit
        # was hit, but the converse does not hold (measured: 256 001..256 258 compressible octets)
        ctx.axiom(z3.Implies(tail_nonempty, over), "unconsumed_tail non-empty => output was cut at max_length")
        pending = ctx.fresh("zlib_holds_pending_output", BoolSort)
        ctx.axiom(z3.And(z3.Implies(pending, over), z3.Implies(over, z3.Or(tail_nonempty, pending))),
                  "output cut at max_length <=> leftover input (unconsumed_tail) or output held inside zlib (or both)")
        o.f["pending"] = pending
        o.f["tail"] = tail_nonempty
        o.f["over"] = over
        o.f["E"] = E
        o.f["pos"] = z3.If(over, mt, z3.Length(E))
        return interp.mk("vbytes", r)
    fm[("decompressor", "decompress")] = decompress

    def unconsumed_tail(interp, o):
        t = o.f["tail"]
        if t is None:
            return b""
        tail = interp.ctx.fresh("unconsumed_tail", StringSort)
        interp.ctx.axiom((z3.Length(tail) > 0) == t, "unconsumed_tail")
        return interp.mk("vbytes", tail)
    fa[("decompressor", "unconsumed_tail")] = unconsumed_tail

    def unused_data(interp, o):
        # octets after the END of a finished stream; empty while the stream has not ended (in particular when the
        # output was cut at max_length)
        u = interp.ctx.fresh("unused_data", StringSort)
        if o.f.get("over") is not None:
            interp.ctx.axiom(z3.Implies(o.f["over"], z3.Length(u) == 0), "unused_data is empty unless the stream has ended")
        return interp.mk("vbytes", u)
    fa[("decompressor", "unused_data")] = unused_data


def install_serialization(cfg):
    """PEM/DER dump of asymmetric keys: opaque octets; which object (private/public) is serialised is what matters."""
    fm = cfg.foreign_methods
    PEMOut = z3.Function("KeyBytes", S_, I_, S_)
    kinds = ["rsa", "ec", "ed25519", "ed448", "x25519", "x448"]
    for kd in kinds:
        def pub_bytes(interp, k, a, kw, kd=kd):
            interp.ctx.events.append(("public_bytes", k.kind, k.f["ident"]))
            return SVal(mk_bytes(PEMOut(z3.StringVal("public"), k.f["ident"])))

        def priv_bytes(interp, k, a, kw, kd=kd):
            enc_alg = kw.get("encryption_algorithm", a[2] if len(a) > 2 else None)
            interp.ctx.events.append(("private_bytes", k.kind, k.f["ident"], getattr(enc_alg, "kind", None)))
            return SVal(mk_bytes(PEMOut(z3.StringVal("private"), k.f["ident"])))
        if (kd + "_pub", "public_bytes") not in fm:
            fm[(kd + "_pub", "public_bytes")] = pub_bytes
        if (kd + "_priv", "private_bytes") not in fm:
            fm[(kd + "_priv", "private_bytes")] = priv_bytes


def install_rsa_numbers(cfg):
    fm = cfg.foreign_methods
    RSAPubFrom = z3.Function("RSAPubFrom", I_, I_, I_)
    RSAPrivFrom = z3.Function("RSAPrivFrom", I_, I_, I_, I_)
    RSAConsistent = z3.Function("RSAConsistent", I_, I_, I_, I_, I_, I_, I_, I_, B_)

    def mk_pubnum(interp, e, n):
        for v in (e, n):
            if interp.tag(v) not in ("vint", "vbool"):
                interp.raise_(TypeError, "RSAPublicNumbers arguments must be integers")
        return Foreign("rsa_pubnum", e=e, n=n, pk=None)
    cfg.class_hooks[_rsa.RSAPublicNumbers] = mk_pubnum

    def pubnum_public_key(interp, o, a, kw):
        if o.f.get("pk") is not None:
            return mk_key("rsa_pub", o.f["pk"], bits=z3.IntVal(2048))
        nt, et = interp.int_term(o.f["n"]), interp.int_term(o.f["e"])
        if not interp.ctx.branch(z3.And(et >= 3, nt >= 3, et % 2 == 1)):
            interp.raise_(ValueError, "invalid RSA public numbers")
        ident = RSAPubFrom(nt, et)
        interp.ctx.axiom(z3.And(RSA_n(ident) == nt, RSA_e(ident) == et), "public_numbers(numbers.public_key()) = numbers")
        return mk_key("rsa_pub", ident, bits=S.BitLen(nt))
    fm[("rsa_pubnum", "public_key")] = pubnum_public_key
    cfg.foreign_attrs[("rsa_pubnum", "n")] = lambda interp, o: o.f["n"]
    cfg.foreign_attrs[("rsa_pubnum", "e")] = lambda interp, o: o.f["e"]

    def mk_privnum(interp, p=None, q=None, d=None, dmp1=None, dmq1=None, iqmp=None, public_numbers=None):
        for v in (p, q, d, dmp1, dmq1, iqmp):
            if interp.tag(v) not in ("vint", "vbool"):
                interp.raise_(TypeError, "RSAPrivateNumbers arguments must be integers")
        return Foreign("rsa_privnum", p=p, q=q, d=d, dmp1=dmp1, dmq1=dmq1, iqmp=iqmp, public_numbers=public_numbers)
    cfg.class_hooks[_rsa.RSAPrivateNumbers] = mk_privnum

    def privnum_private_key(interp, o, a, kw):
        pn = o.f["public_numbers"]
        ts = [interp.int_term(o.f[k]) for k in ("d", "p", "q", "dmp1", "dmq1", "iqmp")] + [interp.int_term(pn.f["n"]), interp.int_term(pn.f["e"])]
        if not interp.ctx.branch(RSAConsistent(*ts)):
            interp.raise_(ValueError, "invalid RSA private numbers")
        sk = RSAPrivFrom(ts[0], ts[6], ts[7])
        facts = [Pub(sk) == RSAPubFrom(ts[6], ts[7]), RSA_n(Pub(sk)) == ts[6], RSA_e(Pub(sk)) == ts[7]]
        for nm, t in zip(("d", "p", "q", "dmp1", "dmq1", "iqmp"), ts[:6]):
            facts.append(RSA_priv[nm](sk) == t)
        interp.ctx.axiom(z3.And(*facts), "private_numbers(numbers.private_key()) = numbers")
        return mk_key("rsa_priv", sk, bits=S.BitLen(ts[6]))
    fm[("rsa_privnum", "private_key")] = privnum_private_key

    @cfg.stub(_rsa.rsa_recover_prime_factors)
    def recover(interp, n, d, e):
        c = next_cell(interp.ctx)
        return (interp.mk("vint", z3.Int("rsa_p!%d" % c)), interp.mk("vint", z3.Int("rsa_q!%d" % c)))

    for fn, nm in ((_rsa.rsa_crt_dmp1, "crt_dmp1"), (_rsa.rsa_crt_dmq1, "crt_dmq1"), (_rsa.rsa_crt_iqmp, "crt_iqmp")):
        def crt(interp, a, b, nm=nm):
            return interp.mk("vint", z3.Function(nm, I_, I_, I_)(interp.int_term(a), interp.int_term(b)))
        cfg.stubs[id(fn)] = (fn, crt)
