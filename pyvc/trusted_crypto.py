"""pyvc.trusted_crypto -- assumed contracts of hashlib/hmac/secrets/random/zlib and of the
`cryptography` / pycryptodome primitives, stated over idealised spec relations (DESIGN.md section 8).

Key material is abstract: a key is an integer identity; Pub(sk) is the public key of sk.
Correctness axioms (verify o sign, dec o enc, unwrap o wrap, ECDH commutativity) are instantiated at
the point where the producing primitive is called.  Security is idealised: Valid/unwrap-ok facts are
*only* derivable for artefacts produced with the key.
"""
from __future__ import annotations
import hashlib
import hmac
import secrets
import random
import zlib
import re

from .core import (z3, PyVal, A, C, VABSENT, VNONE, StringSort, IntSort, BoolSort, RealSort, SeqPV, mk_bool, mk_int,
                   mk_str, mk_bytes, mk_list, simp, is_tag, head_tag, tid)
from .values import Unsupported, PyRaise, SVal, HObj, HDict, HList, HSet, Foreign
from .ops import is_plain, boolval, native_exc
from . import spec as S

S_ = StringSort
I_ = IntSort
B_ = BoolSort

# ---- spec relations --------------------------------------------------------------------------
HMAC = z3.Function("HMAC", S_, S_, S_, S_)              # (hash name, key, msg) -> tag
Hash = z3.Function("Hash", S_, S_, S_)                  # (hash name, data) -> digest
Draw = z3.Function("Draw", I_, I_, S_)                  # entropy tape: (cell, n octets)
Pub = z3.Function("Pub", I_, I_)                        # public key of a private key identity
SigValid = z3.Function("SigValid", S_, I_, S_, S_, B_)  # (scheme descriptor, public key, msg, sig)
Sign = z3.Function("Sign", S_, I_, S_, I_, S_)          # (scheme, private key, msg, nonce) -> sig
DerR = z3.Function("DerR", S_, I_)
DerS = z3.Function("DerS", S_, I_)
DerEnc = z3.Function("DerEnc", I_, I_, S_)
ECDSAValid = z3.Function("ECDSAValid", S_, I_, S_, I_, I_, B_)   # (hash, public key, msg, r, s)
DH = z3.Function("DH", I_, I_, S_)                      # (private id, public id) -> shared secret

DIGEST_SIZE = {"sha1": 20, "sha256": 32, "sha384": 48, "sha512": 64}
_HASH_FUNCS = {id(hashlib.sha1): "sha1", id(hashlib.sha256): "sha256", id(hashlib.sha384): "sha384", id(hashlib.sha512): "sha512"}


def hash_name_of(interp, h):
    """Name of a hash given as hashlib constructor / cryptography hashes instance or class / str."""
    n = _HASH_FUNCS.get(id(h))
    if n:
        return n
    if isinstance(h, str):
        return h.lower().replace("-", "")
    nm = getattr(h, "name", None)
    if isinstance(nm, str):
        return nm.lower().replace("-", "")
    if isinstance(h, Foreign) and h.kind == "hashalg":
        return h.f["name"]
    raise Unsupported("unknown hash object %r" % (h,))


def next_cell(ctx):
    c = ctx.ghost.get("entropy_cell", 0)
    ctx.ghost["entropy_cell"] = c + 1
    return c


def draw(interp, n_term, what):
    ctx = interp.ctx
    cell = next_cell(ctx)
    t = Draw(z3.IntVal(cell), n_term)
    ctx.axiom(z3.Length(t) == z3.If(n_term >= 0, n_term, 0), "secrets.token_bytes(n) returns n octets")
    ctx.events.append(("draw", cell, n_term, what))
    return t


def _bytes(interp, v, what):
    if interp.tag(v) != "vbytes":
        interp.raise_(TypeError, "%s: a bytes-like object is required" % what)
    return interp.bytes_term(v)


def install(cfg):
    # ---- hmac / hashlib ------------------------------------------------------------------
    @cfg.stub(hmac.new)
    def hmac_new(interp, key, msg=None, digestmod=None):
        kt = _bytes(interp, key, "hmac key")
        mt = _bytes(interp, msg, "hmac msg") if msg is not None else z3.StringVal("")
        return Foreign("hmac", key=kt, msg=mt, hname=hash_name_of(interp, digestmod))

    def hmac_digest(interp, recv, args, kwargs):
        hn = recv.f["hname"]
        t = HMAC(z3.StringVal(hn), recv.f["key"], recv.f["msg"])
        interp.ctx.axiom(z3.Length(t) == DIGEST_SIZE[hn], "HMAC output has the digest size of its hash")
        interp.ctx.events.append(("hmac", hn, recv.f["key"], recv.f["msg"]))
        return interp.mk("vbytes", t)
    cfg.foreign_methods[("hmac", "digest")] = hmac_digest

    @cfg.stub(hmac.compare_digest)
    def compare_digest(interp, a, b):
        ta, tb = interp.tag(a), interp.tag(b)
        if ta != tb or ta not in ("vbytes", "vstr"):
            interp.raise_(TypeError, "unsupported operand types(s) or combination of types")
        return boolval(interp, interp.eq_term(a, b))

    @cfg.stub(hashlib.new)
    def hashlib_new(interp, name, data=b"", **kw):
        if not isinstance(name, str):
            raise Unsupported("hashlib.new with symbolic name")
        hn = name.lower().replace("-", "")
        if hn not in DIGEST_SIZE:
            interp.raise_(ValueError, "unsupported hash type " + name)
        return Foreign("hash", hname=hn, data=_bytes(interp, data, "hash data"))

    def hash_digest(interp, recv, args, kwargs):
        hn = recv.f["hname"]
        t = Hash(z3.StringVal(hn), recv.f["data"])
        interp.ctx.axiom(z3.Length(t) == DIGEST_SIZE[hn], "digest size")
        return interp.mk("vbytes", t)
    cfg.foreign_methods[("hash", "digest")] = hash_digest

    # ---- randomness ------------------------------------------------------------------------
    @cfg.stub(secrets.token_bytes)
    def token_bytes(interp, n=None):
        if n is None:
            n = 32
        if interp.tag(n) not in ("vint", "vbool"):
            interp.raise_(TypeError, "token_bytes: an integer is required")
        nt = interp.int_term(n)
        if interp.ctx.branch(nt < 0):
            interp.raise_(ValueError, "negative argument not allowed")
        return interp.mk("vbytes", draw(interp, nt, "token_bytes"))

    @cfg.stub(random.choice)
    def random_choice(interp, seq):
        from . import builtins_impl as B
        seq = B.container(interp, seq)
        if isinstance(seq, HList) and seq.mode == "c":
            if not seq.items:
                interp.raise_(IndexError, "Cannot choose from an empty sequence")
            idx = z3.Int("random.choice!%d" % next_cell(interp.ctx))
            k = interp.ctx.choose([idx == i for i in range(len(seq.items))])
            interp.ctx.events.append(("random.choice", len(seq.items)))
            return seq.items[k]
        raise Unsupported("random.choice over a symbolic sequence")

    # ---- re (the one RFC 7797 pattern) ----------------------------------------------------
    def re_match(interp, recv, args, kwargs):
        pat = recv.pattern
        cls, rep = parse_simple_class_pattern(pat)
        s = args[0]
        if interp.tag(s) != "vstr":
            interp.raise_(TypeError, "expected string or bytes-like object")
        t = interp.str_term(s)
        # python's `$` also matches before one trailing newline
        rx = z3.Concat(z3.Plus(cls) if rep == "+" else z3.Star(cls), z3.Option(z3.Re("\n")))
        ok = z3.InRe(t, rx)
        if interp.ctx.branch(ok):
            interp.ctx.add(z3.Implies(ok, z3.InRe(t, S.ASCII_RE)))     # the class (and the newline) is ASCII
            interp.ctx.axiom(z3.InRe(t, S.ASCII_RE), "text matching the RFC 7797 URL-safe pattern is ASCII")
            return Foreign("match")
        return None
    cfg.pattern_match = re_match
    install_asym(cfg)
    install_numbers(cfg)


def parse_simple_class_pattern(pat):
    """`^[class]+$` / `^[class]*$` with ranges and literal characters -> (z3 regex of one character, repetition)."""
    m = re.fullmatch(r"\^\[(.+)\]([+*])\$", pat)
    if not m:
        raise Unsupported("regular expression %r" % pat)
    body, rep = m.group(1), m.group(2)
    if body.startswith("^") or "\\" in body or "[" in body:
        raise Unsupported("regular expression %r" % pat)
    parts = []
    i = 0
    while i < len(body):
        if i + 2 < len(body) and body[i + 1] == "-" and body[i] <= body[i + 2] and body[i].isalnum() and body[i + 2].isalnum():
            parts.append(z3.Range(body[i], body[i + 2]))
            i += 3
        else:
            parts.append(z3.Re(body[i]))
            i += 1
    if any(ord(c) > 127 for c in body):
        raise Unsupported("non-ASCII character class")
    r = parts[0]
    for p_ in parts[1:]:
        r = z3.Union(r, p_)
    return r, rep


# =============================================================================================
# asymmetric keys (cryptography): abstract key material, idealised signature relations

from cryptography.hazmat.primitives import hashes as _hashes
from cryptography.hazmat.primitives.asymmetric import padding as _padding, ec as _ec, rsa as _rsa
from cryptography.hazmat.primitives.asymmetric import ed25519 as _ed25519, ed448 as _ed448, x25519 as _x25519, x448 as _x448
from cryptography.hazmat.primitives.asymmetric import utils as _asym_utils
from cryptography.exceptions import InvalidSignature as _InvalidSignature

CURVES = {"secp256r1": 256, "secp384r1": 384, "secp521r1": 521, "secp256k1": 256}
OKP_KINDS = {"ed25519": (_ed25519.Ed25519PrivateKey, _ed25519.Ed25519PublicKey),
             "ed448": (_ed448.Ed448PrivateKey, _ed448.Ed448PublicKey),
             "x25519": (_x25519.X25519PrivateKey, _x25519.X25519PublicKey),
             "x448": (_x448.X448PrivateKey, _x448.X448PublicKey)}
Nonce = z3.Function("Nonce", I_, I_)


def pad_descriptor(p):
    """Canonical text of a live cryptography padding object (its parameters are what C07/C08 are about)."""
    n = type(p).__name__
    if n == "PKCS1v15":
        return "PKCS1v15"
    if n == "PSS":
        mgf = getattr(p, "_mgf", None)
        mh = getattr(getattr(mgf, "_algorithm", None), "name", "?")
        sl = getattr(p, "_salt_length", None)
        if not isinstance(sl, int):
            sl = type(sl).__name__ if not hasattr(sl, "name") else str(sl)
        return "PSS(mgf1=%s,salt=%s)" % (mh, sl)
    if n == "OAEP":
        mgf = getattr(p, "_mgf", None)
        mh = getattr(getattr(mgf, "_algorithm", None), "name", "?")
        h = getattr(getattr(p, "_algorithm", None), "name", "?")
        return "OAEP(mgf1=%s,hash=%s,label=%r)" % (mh, h, getattr(p, "_label", None))
    raise Unsupported("padding %s" % n)


def new_nonce(ctx):
    return Nonce(z3.IntVal(next_cell(ctx)))


def mk_key(kind, ident, **extra):
    return Foreign(kind, ident=ident, **extra)


def install_asym(cfg):
    fm = cfg.foreign_methods
    fa = cfg.foreign_attrs

    for cls, nm in ((_hashes.SHA1, "sha1"), (_hashes.SHA256, "sha256"), (_hashes.SHA384, "sha384"), (_hashes.SHA512, "sha512")):
        cfg.class_hooks[cls] = (lambda nm_: (lambda interp, *a, **k: Foreign("hashalg", name=nm_)))(nm)
    cfg.class_hooks[_ec.ECDSA] = lambda interp, h, *a, **k: Foreign("ecdsa", hname=hash_name_of(interp, h))
    cfg.class_hooks[_ec.ECDH] = lambda interp, *a, **k: Foreign("ecdh")
    fa[("hashalg", "name")] = lambda interp, o: o.f["name"]
    fa[("hashalg", "digest_size")] = lambda interp, o: DIGEST_SIZE[o.f["name"]]

    def is_kind(*kinds):
        return lambda interp, f: f.kind in kinds
    isf = cfg.isinstance_foreign
    isf[_rsa.RSAPrivateKey] = is_kind("rsa_priv")
    isf[_rsa.RSAPublicKey] = is_kind("rsa_pub")
    isf[_ec.EllipticCurvePrivateKey] = is_kind("ec_priv")
    isf[_ec.EllipticCurvePublicKey] = is_kind("ec_pub")
    for nm, (prv, pub) in OKP_KINDS.items():
        isf[prv] = is_kind(nm + "_priv")
        isf[pub] = is_kind(nm + "_pub")

    # ---- RSA -------------------------------------------------------------------------------
    def scheme_rsa(interp, padding, halg):
        return "RSA/" + pad_descriptor(padding) + "/" + hash_name_of(interp, halg)

    def rsa_sign(interp, k, args, kwargs):
        msg, padding, halg = args
        sch = z3.StringVal(scheme_rsa(interp, padding, halg))
        mt = _bytes(interp, msg, "sign")
        sig = Sign(sch, k.f["ident"], mt, new_nonce(interp.ctx))
        interp.ctx.axiom(SigValid(sch, Pub(k.f["ident"]), mt, sig), "verify(sign(m)) holds under the matching public key")
        interp.ctx.axiom(z3.Length(sig) > 0, "signatures are non-empty")
        interp.ctx.events.append(("sign", scheme_rsa(interp, padding, halg), k.f["ident"], mt))
        return interp.mk("vbytes", sig)
    fm[("rsa_priv", "sign")] = rsa_sign

    def rsa_verify(interp, k, args, kwargs):
        sig, msg, padding, halg = args
        sch = z3.StringVal(scheme_rsa(interp, padding, halg))
        ok = SigValid(sch, k.f["ident"], _bytes(interp, msg, "verify"), _bytes(interp, sig, "verify"))
        interp.ctx.events.append(("verify", scheme_rsa(interp, padding, halg), k.f["ident"]))
        if interp.ctx.branch(ok):
            return None
        interp.raise_(_InvalidSignature)
    fm[("rsa_pub", "verify")] = rsa_verify
    fm[("rsa_priv", "public_key")] = lambda interp, k, a, kw: mk_key("rsa_pub", Pub(k.f["ident"]), bits=k.f.get("bits"))
    fa[("rsa_priv", "key_size")] = lambda interp, k: interp.from_term(mk_int(k.f["bits"]))
    fa[("rsa_pub", "key_size")] = lambda interp, k: interp.from_term(mk_int(k.f["bits"]))

    # ---- EC --------------------------------------------------------------------------------
    def curve_of(interp, k):
        return Foreign("curve", name=k.f["curve"], key_size=CURVES[k.f["curve"]])
    fa[("ec_priv", "curve")] = curve_of
    fa[("ec_pub", "curve")] = curve_of
    fm[("ec_priv", "public_key")] = lambda interp, k, a, kw: mk_key("ec_pub", Pub(k.f["ident"]), curve=k.f["curve"])

    def ec_sign(interp, k, args, kwargs):
        msg, alg = args
        hn = alg.f["hname"]
        mt = _bytes(interp, msg, "sign")
        der = Sign(z3.StringVal("ECDSA-DER/" + hn), k.f["ident"], mt, new_nonce(interp.ctx))
        bits = CURVES[k.f["curve"]]
        r, s_ = DerR(der), DerS(der)
        ctx = interp.ctx
        ctx.axiom(z3.And(r > 0, s_ > 0, r < S.Pow2(z3.IntVal(bits)), s_ < S.Pow2(z3.IntVal(bits))), "ECDSA r, s are in [1, n-1], n < 2^bits")
        S.pow2_facts(ctx, z3.IntVal(bits))
        ctx.axiom(ECDSAValid(z3.StringVal(hn), Pub(k.f["ident"]), mt, r, s_), "ECDSA verify(sign(m)) holds under the matching public key")
        ctx.events.append(("sign", "ECDSA/" + hn + "/" + k.f["curve"], k.f["ident"], mt))
        return interp.mk("vbytes", der)
    fm[("ec_priv", "sign")] = ec_sign

    def ec_verify(interp, k, args, kwargs):
        der, msg, alg = args
        hn = alg.f["hname"]
        dt = _bytes(interp, der, "verify")
        ok = ECDSAValid(z3.StringVal(hn), k.f["ident"], _bytes(interp, msg, "verify"), DerR(dt), DerS(dt))
        interp.ctx.events.append(("verify", "ECDSA/" + hn + "/" + k.f["curve"], k.f["ident"]))
        if interp.ctx.branch(ok):
            return None
        interp.raise_(_InvalidSignature)
    fm[("ec_pub", "verify")] = ec_verify

    @cfg.stub(_asym_utils.decode_dss_signature)
    def decode_dss(interp, der):
        dt = _bytes(interp, der, "decode_dss_signature")
        return (interp.mk("vint", DerR(dt)), interp.mk("vint", DerS(dt)))

    @cfg.stub(_asym_utils.encode_dss_signature)
    def encode_dss(interp, r, s_):
        rt, st = interp.int_term(r), interp.int_term(s_)
        if interp.ctx.branch(z3.Or(rt < 0, st < 0)):
            interp.raise_(ValueError, "Both r and s must be integers >= 0")   # cryptography: asn1 integers; negative rejected
        d = DerEnc(rt, st)
        interp.ctx.axiom(z3.And(DerR(d) == rt, DerS(d) == st), "decode_dss_signature(encode_dss_signature(r, s)) = (r, s)")
        return interp.mk("vbytes", d)

    # ---- OKP -------------------------------------------------------------------------------
    for nm in ("ed25519", "ed448"):
        def ed_sign(interp, k, args, kwargs, nm=nm):
            mt = _bytes(interp, args[0], "sign")
            sch = z3.StringVal("EdDSA/" + nm)
            sig = Sign(sch, k.f["ident"], mt, z3.IntVal(0))
            interp.ctx.axiom(SigValid(sch, Pub(k.f["ident"]), mt, sig), "verify(sign(m)) holds under the matching public key")
            interp.ctx.events.append(("sign", "EdDSA/" + nm, k.f["ident"], mt))
            return interp.mk("vbytes", sig)

        def ed_verify(interp, k, args, kwargs, nm=nm):
            sig, msg = args
            ok = SigValid(z3.StringVal("EdDSA/" + nm), k.f["ident"], _bytes(interp, msg, "verify"), _bytes(interp, sig, "verify"))
            interp.ctx.events.append(("verify", "EdDSA/" + nm, k.f["ident"]))
            if interp.ctx.branch(ok):
                return None
            interp.raise_(_InvalidSignature)
        fm[(nm + "_priv", "sign")] = ed_sign
        fm[(nm + "_pub", "verify")] = ed_verify
    for nm in OKP_KINDS:
        fm[(nm + "_priv", "public_key")] = (lambda nm_: (lambda interp, k, a, kw: mk_key(nm_ + "_pub", Pub(k.f["ident"]))))(nm)


# ---- key numbers / raw encodings (abstract, tied to the key identity) --------------------------
RSA_n = z3.Function("RSA_n", I_, I_)
RSA_e = z3.Function("RSA_e", I_, I_)
RSA_priv = {nm: z3.Function("RSA_" + nm, I_, I_) for nm in ("d", "p", "q", "dmp1", "dmq1", "iqmp")}
EC_x = z3.Function("EC_x", I_, I_)
EC_y = z3.Function("EC_y", I_, I_)
EC_d = z3.Function("EC_d", I_, I_)
OKP_x = z3.Function("OKP_x", I_, S_)
OKP_d = z3.Function("OKP_d", I_, S_)
OKP_LEN = {"ed25519": 32, "ed448": 57, "x25519": 32, "x448": 56}


def install_numbers(cfg):
    fm = cfg.foreign_methods
    fa = cfg.foreign_attrs

    def rsa_pubnum(interp, pk):
        ctx = interp.ctx
        n, e = RSA_n(pk), RSA_e(pk)
        ctx.axiom(z3.And(n > 1, e > 1), "RSA modulus and exponent are > 1")
        return Foreign("rsa_pubnum", n=SVal(mk_int(n)), e=SVal(mk_int(e)), pk=pk)

    fm[("rsa_pub", "public_numbers")] = lambda interp, k, a, kw: rsa_pubnum(interp, k.f["ident"])

    def rsa_privnum(interp, k, a, kw):
        sk = k.f["ident"]
        vals = {}
        for nm, f in RSA_priv.items():
            t = f(sk)
            interp.ctx.axiom(t > 0, "RSA private numbers are positive")
            vals[nm] = SVal(mk_int(t))
        return Foreign("rsa_privnum", public_numbers=rsa_pubnum(interp, Pub(sk)), **vals)
    fm[("rsa_priv", "private_numbers")] = rsa_privnum

    def ec_pubnum(interp, pk, curve):
        bits = CURVES[curve]
        x, y = EC_x(pk), EC_y(pk)
        S.pow2_facts(interp.ctx, z3.IntVal(8 * ((bits + 7) // 8)))
        interp.ctx.axiom(z3.And(x >= 0, y >= 0, x < S.Pow2(z3.IntVal(8 * ((bits + 7) // 8))), y < S.Pow2(z3.IntVal(8 * ((bits + 7) // 8)))),
                         "EC coordinates are field elements (0 <= x, y < 2^(8*ceil(bits/8)))")
        return Foreign("ec_pubnum", x=SVal(mk_int(x)), y=SVal(mk_int(y)), curve=Foreign("curve", name=curve, key_size=bits), pk=pk)
    fm[("ec_pub", "public_numbers")] = lambda interp, k, a, kw: ec_pubnum(interp, k.f["ident"], k.f["curve"])

    def ec_privnum(interp, k, a, kw):
        sk = k.f["ident"]
        bits = CURVES[k.f["curve"]]
        d = EC_d(sk)
        S.pow2_facts(interp.ctx, z3.IntVal(8 * ((bits + 7) // 8)))
        interp.ctx.axiom(z3.And(d > 0, d < S.Pow2(z3.IntVal(8 * ((bits + 7) // 8)))), "EC private value is in [1, n-1]")
        return Foreign("ec_privnum", private_value=SVal(mk_int(d)), public_numbers=ec_pubnum(interp, Pub(sk), k.f["curve"]))
    fm[("ec_priv", "private_numbers")] = ec_privnum

    for nm, ln in OKP_LEN.items():
        def pub_bytes(interp, k, a, kw, ln=ln):
            t = OKP_x(k.f["ident"])
            interp.ctx.axiom(z3.Length(t) == ln, "OKP public key octets have the curve's fixed length")
            interp.ctx.events.append(("public_bytes", a[0] if a else kw.get("encoding"), a[1] if len(a) > 1 else kw.get("format")))
            return SVal(mk_bytes(t))

        def priv_bytes(interp, k, a, kw, ln=ln):
            t = OKP_d(k.f["ident"])
            interp.ctx.axiom(z3.Length(t) == ln, "OKP private key octets have the curve's fixed length")
            interp.ctx.events.append(("private_bytes", a[0] if a else kw.get("encoding"), a[1] if len(a) > 1 else kw.get("format")))
            return SVal(mk_bytes(t))
        fm[(nm + "_pub", "public_bytes")] = pub_bytes
        fm[(nm + "_priv", "private_bytes")] = priv_bytes
