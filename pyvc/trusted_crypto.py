"""pyvc.trusted_crypto -- assumed contracts of hashlib/hmac/secrets/random/zlib and of the
`cryptography` / pycryptodome primitives, stated over idealised spec relations (DESIGN.md section 8).

Key material is abstract: a key is an integer identity; Pub(sk) is the public key of sk.
Correctness axioms (verify o sign, dec o enc, unwrap o wrap, ECDH commutativity) are instantiated at
the point where the producing primitive is called.  Security is idealised: Valid/unwrap-ok facts are
*only* derivable for artefacts produced with the key.
"""
from __future__ import annotations
import hashlib
import hmac
import secrets
import random
import zlib
import re

from .core import (z3, PyVal, A, C, VABSENT, VNONE, StringSort, IntSort, BoolSort, RealSort, SeqPV, mk_bool, mk_int,
                   mk_str, mk_bytes, mk_list, simp, is_tag, head_tag, tid)
from .values import Unsupported, PyRaise, SVal, HObj, HDict, HList, HSet, Foreign
from .ops import is_plain, boolval, native_exc
from . import spec as S

S_ = StringSort
I_ = IntSort
B_ = BoolSort

# ---- spec relations --------------------------------------------------------------------------
HMAC = z3.Function("HMAC", S_, S_, S_, S_)              # (hash name, key, msg) -> tag
Hash = z3.Function("Hash", S_, S_, S_)                  # (hash name, data) -> digest
Draw = z3.Function("Draw", I_, I_, S_)                  # entropy tape: (cell, n octets)
Pub = z3.Function("Pub", I_, I_)                        # public key of a private key identity
SigValid = z3.Function("SigValid", S_, I_, S_, S_, B_)  # (scheme descriptor, public key, msg, sig)
Sign = z3.Function("Sign", S_, I_, S_, I_, S_)          # (scheme, private key, msg, nonce) -> sig
DerR = z3.Function("DerR", S_, I_)
DerS = z3.Function("DerS", S_, I_)
DerEnc = z3.Function("DerEnc", I_, I_, S_)
ECDSAValid = z3.Function("ECDSAValid", S_, I_, S_, I_, I_, B_)   # (hash, public key, msg, r, s)
DH = z3.Function("DH", I_, I_, S_)                      # (private id, public id) -> shared secret

DIGEST_SIZE = {"sha1": 20, "sha256": 32, "sha384": 48, "sha512": 64}
_HASH_FUNCS = {id(hashlib.sha1): "sha1", id(hashlib.sha256): "sha256", id(hashlib.sha384): "sha384", id(hashlib.sha512): "sha512"}


def hash_name_of(interp, h):
    """Name of a hash given as hashlib constructor / cryptography hashes instance or class / str."""
    n = _HASH_FUNCS.get(id(h))
    if n:
        return n
    if isinstance(h, str):
        return h.lower().replace("-", "")
    nm = getattr(h, "name", None)
    if isinstance(nm, str):
        return nm.lower().replace("-", "")
    if isinstance(h, Foreign) and h.kind == "hashalg":
        return h.f["name"]
    raise Unsupported("unknown hash object %r" % (h,))


def next_cell(ctx):
    c = ctx.ghost.get("entropy_cell", 0)
    ctx.ghost["entropy_cell"] = c + 1
    return c


def draw(interp, n_term, what):
    ctx = interp.ctx
    cell = next_cell(ctx)
    t = Draw(z3.IntVal(cell), n_term)
    ctx.axiom(z3.Length(t) == z3.If(n_term >= 0, n_term, 0), "secrets.token_bytes(n) returns n octets")
    ctx.events.append(("draw", cell, n_term, what))
    return t


def _bytes(interp, v, what):
    if interp.tag(v) != "vbytes":
        interp.raise_(TypeError, "%s: a bytes-like object is required" % what)
    return interp.bytes_term(v)


def install(cfg):
    # ---- hmac / hashlib ------------------------------------------------------------------
    @cfg.stub(hmac.new)
    def hmac_new(interp, key, msg=None, digestmod=None):
        kt = _bytes(interp, key, "hmac key")
        mt = _bytes(interp, msg, "hmac msg") if msg is not None else z3.StringVal("")
        return Foreign("hmac", key=kt, msg=mt, hname=hash_name_of(interp, digestmod))

    def hmac_digest(interp, recv, args, kwargs):
        hn = recv.f["hname"]
        t = HMAC(z3.StringVal(hn), recv.f["key"], recv.f["msg"])
        interp.ctx.axiom(z3.Length(t) == DIGEST_SIZE[hn], "HMAC output has the digest size of its hash")
        interp.ctx.events.append(("hmac", hn, recv.f["key"], recv.f["msg"]))
        return interp.mk("vbytes", t)
    cfg.foreign_methods[("hmac", "digest")] = hmac_digest

    @cfg.stub(hmac.compare_digest)
    def compare_digest(interp, a, b):
        ta, tb = interp.tag(a), interp.tag(b)
        if ta != tb or ta not in ("vbytes", "vstr"):
            interp.raise_(TypeError, "unsupported operand types(s) or combination of types")
        return boolval(interp, interp.eq_term(a, b))

    @cfg.stub(hashlib.new)
    def hashlib_new(interp, name, data=b"", **kw):
        if not isinstance(name, str):
            raise Unsupported("hashlib.new with symbolic name")
        hn = name.lower().replace("-", "")
        if hn not in DIGEST_SIZE:
            interp.raise_(ValueError, "unsupported hash type " + name)
        return Foreign("hash", hname=hn, data=_bytes(interp, data, "hash data"))

    def hash_digest(interp, recv, args, kwargs):
        hn = recv.f["hname"]
        t = Hash(z3.StringVal(hn), recv.f["data"])
        interp.ctx.axiom(z3.Length(t) == DIGEST_SIZE[hn], "digest size")
        return interp.mk("vbytes", t)
    cfg.foreign_methods[("hash", "digest")] = hash_digest

    # ---- randomness ------------------------------------------------------------------------
    @cfg.stub(secrets.token_bytes)
    def token_bytes(interp, n=None):
        if n is None:
            n = 32
        if interp.tag(n) not in ("vint", "vbool"):
            interp.raise_(TypeError, "token_bytes: an integer is required")
        nt = interp.int_term(n)
        if interp.ctx.branch(nt < 0):
            interp.raise_(ValueError, "negative argument not allowed")
        return interp.mk("vbytes", draw(interp, nt, "token_bytes"))

    @cfg.stub(random.choice)
    def random_choice(interp, seq):
        from . import builtins_impl as B
        seq = B.container(interp, seq)
        if isinstance(seq, HList) and seq.mode == "c":
            if not seq.items:
                interp.raise_(IndexError, "Cannot choose from an empty sequence")
            idx = z3.Int("random.choice!%d" % next_cell(interp.ctx))
            k = interp.ctx.choose([idx == i for i in range(len(seq.items))])
            interp.ctx.events.append(("random.choice", len(seq.items)))
            return seq.items[k]
        raise Unsupported("random.choice over a symbolic sequence")

    # ---- re (the one RFC 7797 pattern) ----------------------------------------------------
    def re_match(interp, recv, args, kwargs):
        pat = recv.pattern
        if pat != "^[a-zA-Z0-9-_~]+$":
            raise Unsupported("regular expression %r" % pat)
        s = args[0]
        if interp.tag(s) != "vstr":
            interp.raise_(TypeError, "expected string or bytes-like object")
        t = interp.str_term(s)
        cls = z3.Union(z3.Range("a", "z"), z3.Range("A", "Z"), z3.Range("0", "9"), z3.Re("-"), z3.Re("_"), z3.Re("~"))
        # python's `$` also matches before one trailing newline
        rx = z3.Concat(z3.Plus(cls), z3.Option(z3.Re("\n")))
        ok = z3.InRe(t, rx)
        if interp.ctx.branch(ok):
            return Foreign("match")
        return None
    cfg.pattern_match = re_match


def _pattern_method(interp, recv, name, args, kwargs):
    pass
