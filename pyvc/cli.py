"""pyvc.cli -- ./check <Cxx> --tier quick|thorough [--repo PATH] [--replay FILE]

exit 0  every obligation discharged, vacuity guards passed, known findings re-confirmed
exit 1  VIOLATION property=<id> replay=<path>   (refuted obligation; counterexample replayed natively)
exit 2  undecided (solver unknown / code left the interpretable subset)
exit 3  checker error
"""
from __future__ import annotations
import argparse
import hashlib
import importlib
import json
import multiprocessing as mp
import os
import subprocess
import sys
import time
import traceback

ROOT = os.path.dirname(os.path.dirname(os.path.abspath(__file__)))


def _setup_paths(repo):
    if ROOT not in sys.path:
        sys.path.insert(0, ROOT)
    if repo:
        src = os.path.join(repo, "src")
        sys.path.insert(0, src)
    os.environ.setdefault("VERIF_SCRATCH", "/var/tmp")


def _load(prop):
    return importlib.import_module("props.%s" % prop.lower())


def _worker(job):
    prop, hname, repo, tier, seed = job
    _setup_paths(repo)
    t0 = time.time()
    try:
        import joserfc  # noqa: F401  (working tree under proof)
        from pyvc import run, api
        api.OPEN_FINDINGS = set(e["id"] for e in load_known_findings().get("open", []))
        mod = _load(prop)
        fn = [h for h in list(mod.HARNESSES) + list(getattr(mod, "THOROUGH_HARNESSES", [])) if h.__name__ == hname][0]
        timeout_ms = 10000 if tier == "quick" else 60000
        opts = getattr(fn, "opts", {})
        res = run.run_harness(fn, name=hname, solver_timeout_ms=opts.get("timeout_ms", timeout_ms),
                              max_paths=opts.get("max_paths", 20000))
        out = res.to_json()
        # replay refuted obligations natively (same process: same working tree the VCs came from)
        replays = []
        seen = set()
        for ob in res.obligations:
            if ob.status != "refuted":
                continue
            key = (ob.label, json.dumps(ob.inputs, sort_keys=True, default=str))
            if key in seen:
                continue
            seen.add(key)
            rp = run.replay_native(fn, ob.inputs or {})
            replays.append({"label": ob.label, "path": ob.path, "inputs": ob.inputs, "native": rp,
                            "reproduced": ob.label in rp["failed"]})
        # obligations left undecided, or refuted without a natively reproducing model: search a concrete
        # failing input by running the harness natively on generated inputs (witness search only)
        need = {}
        for ob in res.obligations:
            if ob.status == "unknown":
                need.setdefault(ob.label, "unknown")
        for rp in replays:
            if not rp["reproduced"]:
                need.setdefault(rp["label"], "unreproduced")
        done_labels = set(rp["label"] for rp in replays if rp["reproduced"])
        for label in need:
            if label in done_labels or label not in res.input_kinds:
                continue
            found, trials = run.search_native(fn, label, res.input_kinds[label], res.pools.get(label, []), seed=seed)
            if found is not None:
                rp = run.replay_native(fn, found)
                replays.append({"label": label, "path": -1, "inputs": found, "native": rp, "reproduced": label in rp["failed"],
                                "found_by": "native witness search (%d trials) after the prover left the obligation %s" % (trials, need[label])})
        out["replays"] = replays
        out["repo_file"] = os.path.dirname(joserfc.__file__)
        return out
    except Exception:
        return {"name": hname, "fatal": traceback.format_exc(), "obligations": [], "paths": 0, "unsupported": [],
                "errors": [], "covers": [], "axioms": [], "replays": [], "wall_s": time.time() - t0, "stats": {}, "functions": []}


def _blank_result(hname, why_unsupported=None, fatal=None):
    return {"name": hname, "fatal": fatal, "obligations": [], "paths": 0, "unsupported": [why_unsupported] if why_unsupported else [],
            "errors": [], "covers": [], "axioms": [], "replays": [], "wall_s": 0.0, "stats": {}, "functions": []}


def _run_jobs(job_list, jobs, cap_s):
    """One OS process per harness, with a wall-clock watchdog: z3's string solver occasionally ignores its timeout on a
    feasibility probe (observed: one harness of C16 spinning for 35 min in 1 run out of 5).  A harness that exceeds the
    cap is killed and run again once (the hang is not deterministic); exceeding it twice is reported as undecided."""
    import pickle
    tmpd = os.path.join(ROOT, "replays", "_jobs")
    os.makedirs(tmpd, exist_ok=True)
    pending = list(enumerate(job_list))
    running = {}
    attempts = {}
    results = [None] * len(job_list)
    env = dict(os.environ)
    while pending or running:
        while pending and len(running) < jobs:
            i, job = pending.pop(0)
            outp = os.path.join(tmpd, "job-%d-%d.pkl" % (os.getpid(), i))
            if os.path.exists(outp):
                os.remove(outp)
            pr = subprocess.Popen([sys.executable, "-m", "pyvc.cli", "--job", json.dumps(list(job)), "--job-out", outp],
                                  cwd=ROOT, env=env, stdout=subprocess.DEVNULL, stderr=subprocess.DEVNULL)
            running[i] = (pr, time.time(), outp, job)
        time.sleep(0.3)
        for i in list(running):
            pr, t0, outp, job = running[i]
            rc = pr.poll()
            if rc is not None:
                del running[i]
                try:
                    with open(outp, "rb") as f:
                        results[i] = pickle.load(f)
                except Exception:
                    results[i] = _blank_result(job[1], fatal="harness process exited with code %s without a result" % rc)
                try:
                    os.remove(outp)
                except OSError:
                    pass
            elif time.time() - t0 > cap_s:
                pr.kill()
                pr.wait()
                del running[i]
                attempts[i] = attempts.get(i, 0) + 1
                if attempts[i] < 2:
                    pending.append((i, job))
                else:
                    results[i] = _blank_result(job[1], why_unsupported="harness exceeded the wall-clock cap of %d s twice (solver not honouring its timeout)" % cap_s)
    return results


def _git(repo, *args):
    try:
        return subprocess.run(["git", "-C", repo] + list(args), capture_output=True, text=True, timeout=20).stdout.strip()
    except Exception:
        return ""


def load_known_findings():
    p = os.path.join(ROOT, "known_findings.json")
    if not os.path.exists(p):
        return {"open": [], "fixed": []}
    with open(p) as f:
        return json.load(f)


def main(argv=None):
    ap = argparse.ArgumentParser()
    ap.add_argument("prop", nargs="?")
    ap.add_argument("--tier", default=os.environ.get("VERIF_TIER", "quick"))
    ap.add_argument("--repo", default=None)
    ap.add_argument("--replay", default=None)
    ap.add_argument("--setup", action="store_true")
    ap.add_argument("--only", default=None, help="comma separated harness names")
    ap.add_argument("--write-baseline", action="store_true", help="record the obligations discharged on this (unchanged) tree")
    ap.add_argument("--jobs", type=int, default=int(os.environ.get("VERIF_JOBS", "12")))
    ap.add_argument("-v", "--verbose", action="store_true")
    ap.add_argument("--job", default=None, help="(internal) run one harness: JSON [prop, harness, repo, tier, seed]")
    ap.add_argument("--job-out", default=None, help="(internal) where the pickled result of --job goes")
    args = ap.parse_args(argv)
    if args.job:
        import pickle
        job = tuple(json.loads(args.job))
        out = _worker(job)
        with open(args.job_out + ".tmp", "wb") as f:
            pickle.dump(out, f)
        os.replace(args.job_out + ".tmp", args.job_out)
        return 0
    os.makedirs(os.path.join(ROOT, "evidence"), exist_ok=True)
    os.makedirs(os.path.join(ROOT, "replays"), exist_ok=True)
    if args.setup:
        return setup()
    if not args.prop:
        ap.error("property id required")
    prop = args.prop.upper()
    seed = int(os.environ.get("VERIF_SEED", "0") or 0)
    _setup_paths(args.repo)
    if args.replay:
        return do_replay(prop, args.replay, args.repo)
    return run_check(prop, args.tier, args.repo, seed, args.only, args.jobs, args.verbose, args.write_baseline)


def setup():
    _setup_paths(None)
    try:
        from pyvc import core  # noqa
        import joserfc  # noqa
        from pyvc import selftest
        ok = selftest.run()
        print("setup: engine self-test", "ok" if ok else "FAILED")
        return 0 if ok else 3
    except Exception:
        traceback.print_exc()
        return 3


def do_replay(prop, path, repo):
    import joserfc  # noqa
    from pyvc import run
    with open(path) as f:
        rp = json.load(f)
    mod = _load(prop)
    fn = [h for h in list(mod.HARNESSES) + list(getattr(mod, "THOROUGH_HARNESSES", [])) if h.__name__ == rp["harness"]][0]
    r = run.replay_native(fn, rp.get("inputs") or {})
    print(json.dumps(r, indent=1))
    if rp["label"] in r["failed"]:
        print("VIOLATION property=%s replay=%s" % (prop, path))
        return 1
    return 0


def load_baseline(prop):
    p = os.path.join(ROOT, "baseline", "%s.json" % prop)
    if not os.path.exists(p):
        return set()
    with open(p) as f:
        return set(tuple(x) for x in json.load(f)["proved"])


def run_check(prop, tier, repo, seed, only, jobs, verbose, write_baseline=False):
    t0 = time.time()
    import joserfc
    repo_root = os.path.dirname(os.path.dirname(os.path.dirname(os.path.abspath(joserfc.__file__))))
    mod = _load(prop)
    harnesses = list(mod.HARNESSES)
    if tier == "thorough":
        harnesses += list(getattr(mod, "THOROUGH_HARNESSES", []))
    if only:
        names = set(only.split(","))
        harnesses = [h for h in harnesses if h.__name__ in names]
    job_list = [(prop, h.__name__, repo, tier, seed) for h in harnesses]
    results = []
    if jobs <= 1 or len(job_list) <= 1:
        for j in job_list:
            results.append(_worker(j))
    else:
        results = _run_jobs(job_list, min(jobs, len(job_list)), 600 if tier == "quick" else 3600)

    kf = load_known_findings()
    open_kf = [e for e in kf.get("open", []) if e.get("property") == prop]

    baseline = load_baseline(prop)
    regressed = {}
    obligations = []
    undecided = []
    errors = []
    violations = []
    axioms = set()
    functions = set()
    paths = 0
    solver_time = 0.0
    max_time = 0.0
    by_backend = {}
    for r in results:
        if r.get("fatal"):
            errors.append("%s: %s" % (r["name"], r["fatal"]))
            continue
        paths += r["paths"]
        axioms.update(r["axioms"])
        functions.update(r.get("functions", []))
        for e in r["errors"]:
            errors.append("%s: %s" % (r["name"], e))
        for u in r["unsupported"]:
            undecided.append("%s: outside the interpretable subset: %s" % (r["name"], u))
        if not r["obligations"] and not r["errors"] and not r["unsupported"]:
            errors.append("%s: vacuous harness (no obligation generated)" % r["name"])
        if r["paths"] == 0:
            errors.append("%s: vacuous harness (no feasible path)" % r["name"])
        for ob in r["obligations"]:
            obligations.append(ob)
            solver_time += ob["time_s"]
            max_time = max(max_time, ob["time_s"])
            be = (ob["solver"] or "?").split(":")[0]
            by_backend[be] = by_backend.get(be, 0) + 1
            if ob["status"] == "unknown":
                key = (r["name"], ob["label"])
                reproduced_here = any(rp["label"] == ob["label"] and rp["reproduced"] for rp in r["replays"])
                if key in baseline and not reproduced_here:
                    # discharged on the unchanged tree, no longer provable now: reported (brief: an obligation that
                    # passed on the unchanged tree and now fails, with the solver's reason attached)
                    if key not in regressed:
                        regressed[key] = ob
                elif not reproduced_here:
                    undecided.append("%s / %s: solver answered unknown (%s)" % (r["name"], ob["label"], ob["solver"]))
        for rp in r["replays"]:
            violations.append((r["name"], rp))
        missing = set(getattr([h for h in harnesses if h.__name__ == r["name"]][0], "expect_covers", ())) - set(r["covers"])
        if missing:
            errors.append("%s: cover points not reached: %s" % (r["name"], sorted(missing)))

    # known findings: witnesses are replayed natively on every run
    kf_lines = []
    kf_report = []
    if open_kf:
        from pyvc import run
        for e in open_kf:
            fn = [h for h in list(mod.HARNESSES) + list(getattr(mod, "WITNESS_HARNESSES", [])) if h.__name__ == e["harness"]]
            if not fn:
                errors.append("known finding %s names an unknown harness %s" % (e["id"], e["harness"]))
                continue
            rp = run.replay_native(fn[0], e["witness"])
            still = e["label"] in rp["failed"]
            kf_report.append({"id": e["id"], "still_fails": still, "native": rp})
            if still:
                kf_lines.append("KNOWN-FINDING: property=%s %s (%s)" % (prop, e["what"], e["id"]))
            else:
                kf_lines.append("NOTE: known finding %s no longer reproduces (stale entry)" % e["id"])

    # violations
    viol_lines = []
    head = _git(repo_root, "rev-parse", "HEAD")
    diff_sha = hashlib.sha256(_git(repo_root, "diff").encode()).hexdigest()[:16]
    for hname, rp in violations:
        fname = "%s-%s-%s.json" % (prop, hname, hashlib.sha1((rp["label"] + json.dumps(rp["inputs"], sort_keys=True, default=str)).encode()).hexdigest()[:8])
        path = os.path.join(ROOT, "replays", fname)
        with open(path, "w") as f:
            json.dump({"property": prop, "harness": hname, "label": rp["label"], "obligation": "%s / %s" % (hname, rp["label"]),
                       "inputs": rp["inputs"], "native": rp["native"], "reproduced": rp["reproduced"],
                       "solver_output": "sat (counter-model above)", "repo_head": head, "diff_sha": diff_sha,
                       "replay_cmd": "./check %s --replay %s" % (prop, os.path.relpath(path, ROOT))}, f, indent=1, default=str)
        if rp["reproduced"]:
            viol_lines.append("VIOLATION property=%s replay=%s" % (prop, path))
        else:
            viol_lines.append("VIOLATION property=%s replay=%s no-failing-input-found" % (prop, path))
    for (hname, label), ob in regressed.items():
        fname = "%s-%s-%s.json" % (prop, hname, hashlib.sha1(("regressed" + label).encode()).hexdigest()[:8])
        path = os.path.join(ROOT, "replays", fname)
        with open(path, "w") as f:
            json.dump({"property": prop, "harness": hname, "label": label, "obligation": "%s / %s" % (hname, label),
                       "inputs": None, "reproduced": False,
                       "solver_output": "obligation discharged on the unchanged tree (baseline/%s.json) is no longer provable: %s; "
                                        "no counter-model and no natively failing input found" % (prop, ob["solver"]),
                       "goal": ob.get("goal"), "repo_head": head, "diff_sha": diff_sha}, f, indent=1, default=str)
        viol_lines.append("VIOLATION property=%s replay=%s no-failing-input-found" % (prop, path))
    # prefer reproduced violations first
    viol_lines.sort(key=lambda l: l.endswith("no-failing-input-found"))
    if write_baseline and not viol_lines and not errors and not undecided:
        os.makedirs(os.path.join(ROOT, "baseline"), exist_ok=True)
        proved = sorted(set((o["harness"], o["label"]) for o in obligations if o["status"] == "proved"))
        with open(os.path.join(ROOT, "baseline", "%s.json" % prop), "w") as f:
            json.dump({"property": prop, "repo_head": head, "proved": proved}, f, indent=1)
        print("baseline written: %d distinct obligations" % len(proved))

    n_obl = len(obligations)
    n_dis = sum(1 for o in obligations if o["status"] == "proved")
    wall = time.time() - t0
    samples = []
    for o in obligations[:3] + obligations[-2:]:
        samples.append({"harness": o["harness"], "obligation": o["label"], "path": o["path"], "status": o["status"],
                        "solver": o["solver"], "time_s": o["time_s"], "pc_size": o["pc_size"], "goal": o["goal"]})
    fuc = sorted(getattr(mod, "FUNCTIONS_UNDER_CONTRACT", []))
    evidence = {
        "property_id": prop, "tier": tier if tier in ("quick", "thorough") else "quick", "seed": seed, "level": "proof",
        "coverage": {
            "obligations": n_obl, "discharged": n_dis,
            "checker_cmd": "./check %s --tier %s" % (prop, tier),
            "trusted_base": sorted(axioms) + list(getattr(mod, "TRUSTED", [])),
            "samples": samples or [{"note": "no obligations"}],
            "functions_under_contract": fuc,
            "harnesses": [{"name": r["name"], "paths": r.get("paths"), "obligations": len(r["obligations"]),
                           "wall_s": r.get("wall_s")} for r in results],
            "by_backend": by_backend, "solver_time_s": {"sum": round(solver_time, 3), "max": round(max_time, 3)},
            "paths_explored": paths, "undecided": undecided, "checker_errors": errors,
            "known_findings": kf_report, "bounded_standins": list(getattr(mod, "BOUNDED", [])),
            "repo_head": head, "repo_diff_sha": diff_sha,
            "explanation": getattr(mod, "__doc__", "") or "",
        },
        "assumptions": list(getattr(mod, "ASSUMPTIONS", [])) + [
            "Python semantics as encoded by pyvc (DESIGN.md section 4): unbounded ints exact; floats as reals, finite; dict iteration order abstracted; no recursion limit / MemoryError; str code points as SMT characters; bytes as strings of octets",
            "solvers z3 5.1 / cvc5 1.0.3 and the pyvc engine itself are trusted",
        ],
        "wall_s": round(wall, 3),
        "violations": len(viol_lines),
    }
    # evidence is the record of a run against /repo itself; runs against a scratch copy (--repo, mutant self-test)
    # and partial runs (--only) write next to it, never over it
    ev_name = "%s.json" % prop if (not repo and not only) else "_scratch-%s.json" % prop
    with open(os.path.join(ROOT, "evidence", ev_name), "w") as f:
        json.dump(evidence, f, indent=1, default=str)

    for l in kf_lines:
        print(l)
    print("%s: %d obligations, %d discharged, %d paths, %d harnesses, solver %.1fs, wall %.1fs" % (
        prop, n_obl, n_dis, paths, len(results), solver_time, wall))
    if errors:
        for e in errors:
            print("CHECKER-ERROR:", e)
    if viol_lines:
        for l in viol_lines:
            print(l)
        return 1
    if errors:
        return 3
    if undecided:
        for u in undecided:
            print("UNDECIDED:", u)
        return 2
    if n_obl == 0:
        print("CHECKER-ERROR: zero obligations")
        return 3
    return 0


if __name__ == "__main__":
    sys.exit(main())
