"""pyvc.ops -- operators on interpreter values (exceptional outcomes included)."""
from __future__ import annotations
import operator
from .core import (z3, A, C, StringSort, IntSort, mk_bool, mk_int, mk_float, mk_str, mk_bytes, simp, head_tag,
                   is_tag, bytes_to_smt)
from .values import Unsupported, PyRaise, SVal, HObj, HDict, HList, HSet, Foreign

_NATIVE = {
    "Add": operator.add, "Sub": operator.sub, "Mult": operator.mul, "FloorDiv": operator.floordiv,
    "Mod": operator.mod, "Div": operator.truediv, "Pow": operator.pow, "BitOr": operator.or_,
    "BitAnd": operator.and_, "LShift": operator.lshift, "RShift": operator.rshift, "BitXor": operator.xor,
}

_PLAIN = (type(None), bool, int, float, str, bytes, tuple)


def is_plain(v):
    if isinstance(v, tuple):
        return all(is_plain(x) for x in v)
    return isinstance(v, _PLAIN)


def native_exc(interp, e):
    """Re-raise a native exception (from constant folding) as an interpreted one."""
    raise PyRaise(interp.make_exc(type(e), e.args))


def boolval(interp, t):
    if isinstance(t, bool):
        return t
    return interp.from_term(mk_bool(t))


def concretize_int(interp, v, lo=0, hi=8):
    """Concrete python int for a symbolic int by case split, when the path bounds it to [lo, hi]."""
    if isinstance(v, int):
        return v
    t = interp.int_term(v)
    if not interp.ctx.entails(z3.And(t >= lo, t <= hi)):
        raise Unsupported("unbounded symbolic integer where a concrete one is needed")
    k = interp.ctx.choose([t == i for i in range(lo, hi + 1)])
    return lo + k


def binop(interp, op, a, b):
    if is_plain(a) and is_plain(b):
        f = _NATIVE.get(op)
        if f is None:
            raise Unsupported("operator %s" % op)
        try:
            return f(a, b)
        except Exception as e:  # noqa
            native_exc(interp, e)
    ta = interp.tag(a)
    tb = interp.tag(b)
    num = ("vint", "vbool")
    if op == "Mod" and ta in ("vstr", "vbytes"):
        from . import builtins_impl
        return builtins_impl.percent_format(interp, a, b)
    if ta in num and tb in num:
        x = interp.int_term(a)
        y = interp.int_term(b)
        if op == "Add":
            return interp.mk("vint", x + y)
        if op == "Sub":
            return interp.mk("vint", x - y)
        if op == "Mult":
            return interp.mk("vint", x * y)
        if op in ("FloorDiv", "Mod"):
            if isinstance(b, int) and not isinstance(b, bool) and b > 0:
                return interp.mk("vint", (x / y) if op == "FloorDiv" else (x % y))
            if interp.ctx.branch(y == 0):
                interp.raise_(ZeroDivisionError)
            if interp.ctx.entails(y > 0):
                return interp.mk("vint", (x / y) if op == "FloorDiv" else (x % y))
            raise Unsupported("division by a possibly negative symbolic integer")
        raise Unsupported("int operator %s" % op)
    if (ta == "vfloat" and tb in num + ("vfloat",)) or (tb == "vfloat" and ta in num):
        if op in ("Add", "Sub"):
            # exact rational arithmetic; float rounding is not modelled (documented assumption)
            x = interp.real_term(a)
            y = interp.real_term(b)
            return interp.mk("vfloat", (x + y) if op == "Add" else (x - y))
        raise Unsupported("float arithmetic %s" % op)
    if op == "Add":
        if ta == "vstr" and tb == "vstr":
            return interp.mk("vstr", z3.Concat(interp.str_term(a), interp.str_term(b)))
        if ta == "vbytes" and tb == "vbytes":
            return interp.mk("vbytes", z3.Concat(interp.bytes_term(a), interp.bytes_term(b)))
        if isinstance(a, HList) and isinstance(b, HList):
            if a.mode == "c" and b.mode == "c":
                return HList(items=list(a.items) + list(b.items))
            return HList(seq=z3.Concat(interp.term_of(a).arg(0), interp.term_of(b).arg(0)))
        if isinstance(a, tuple) and isinstance(b, tuple):
            return a + b
        if ta == "vlist" and tb == "vlist":
            from . import builtins_impl
            la = builtins_impl.as_hlist(interp, a)
            lb = builtins_impl.as_hlist(interp, b)
            return HList(seq=z3.Concat(interp.term_of(la).arg(0), interp.term_of(lb).arg(0)))
        interp.raise_(TypeError, "unsupported operand type(s) for +")
    if op == "Mult":
        if ta in ("vstr", "vbytes") and tb in num:
            if isinstance(a, (str, bytes)) and len(a) == 1 and not isinstance(b, int):
                from . import spec as S
                lit = a if isinstance(a, str) else a.decode("latin-1")
                return interp.mk(ta, S.rep(interp.ctx, z3.StringVal(lit), interp.int_term(b)))
            n = concretize_int(interp, b)
            if isinstance(a, (str, bytes)):
                return a * n
            t = interp.text_term(a)
            if n <= 0:
                return "" if ta == "vstr" else b""
            r = t
            for _ in range(n - 1):
                r = z3.Concat(r, t)
            return interp.mk(ta, r)
        if tb in ("vstr", "vbytes") and ta in num:
            return binop(interp, op, b, a)
        interp.raise_(TypeError, "unsupported operand type(s) for *")
    if op == "Sub" and isinstance(a, HSet) and isinstance(b, HSet):
        from . import builtins_impl
        return builtins_impl.set_difference(interp, a, b)
    if op == "BitOr" and isinstance(a, HSet) and isinstance(b, HSet):
        from . import builtins_impl
        return builtins_impl.set_union(interp, a, b)
    if op in ("Sub", "FloorDiv", "Mod", "Mult", "Div"):
        interp.raise_(TypeError, "unsupported operand type(s)")
    raise Unsupported("operator %s on %s, %s" % (op, ta, tb))


def unaryop(interp, op, v):
    if is_plain(v):
        try:
            if op == "USub":
                return -v
            if op == "UAdd":
                return +v
            if op == "Invert":
                return ~v
        except Exception as e:  # noqa
            native_exc(interp, e)
    tg = interp.tag(v)
    if op == "USub":
        if tg in ("vint", "vbool"):
            return interp.mk("vint", -interp.int_term(v))
        if tg == "vfloat":
            return interp.mk("vfloat", -interp.real_term(v))
        interp.raise_(TypeError, "bad operand type for unary -")
    raise Unsupported("unary %s" % op)


def compare(interp, op, a, b):
    if op == "Eq":
        return boolval(interp, interp.eq_term(a, b))
    if op == "NotEq":
        e = interp.eq_term(a, b)
        return (not e) if isinstance(e, bool) else boolval(interp, z3.Not(e))
    if op in ("Is", "IsNot"):
        r = is_term(interp, a, b)
        if op == "IsNot":
            r = (not r) if isinstance(r, bool) else z3.Not(r)
        return boolval(interp, r)
    if op in ("In", "NotIn"):
        from . import builtins_impl
        r = builtins_impl.contains(interp, b, a)
        if op == "NotIn":
            r = (not r) if isinstance(r, bool) else z3.Not(r)
        return boolval(interp, r)
    # ordering
    if is_plain(a) and is_plain(b):
        f = {"Lt": operator.lt, "Gt": operator.gt, "LtE": operator.le, "GtE": operator.ge}[op]
        try:
            return f(a, b)
        except Exception as e:  # noqa
            native_exc(interp, e)
    ta = interp.tag(a)
    tb = interp.tag(b)
    nums = ("vint", "vbool", "vfloat")
    if ta in nums and tb in nums:
        if ta != "vfloat" and tb != "vfloat":
            x, y = interp.int_term(a), interp.int_term(b)
        else:
            x, y = interp.real_term(a), interp.real_term(b)
    elif ta == tb and ta in ("vstr", "vbytes"):
        x, y = interp.text_term(a), interp.text_term(b)
    elif isinstance(a, HSet) or isinstance(b, HSet):
        raise Unsupported("set ordering")
    else:
        interp.raise_(TypeError, "ordering not supported between these types")
    if op == "Lt":
        return boolval(interp, x < y)
    if op == "Gt":
        return boolval(interp, x > y)
    if op == "LtE":
        return boolval(interp, x <= y)
    return boolval(interp, x >= y)


def is_term(interp, a, b):
    """Python `is` (singletons and heap identity)."""
    for x, y in ((a, b), (b, a)):
        if y is None:
            if isinstance(x, SVal):
                return simp(is_tag(x.t, "vnone"))
            return x is None
        if isinstance(y, bool):
            if isinstance(x, SVal):
                return simp(x.t == mk_bool(z3.BoolVal(y)))
            return x is y
    if isinstance(a, SVal) or isinstance(b, SVal):
        raise Unsupported("identity test on symbolic values")
    if isinstance(a, (int, str, bytes, float)) and isinstance(b, (int, str, bytes, float)):
        raise Unsupported("identity test on immutable values")
    return a is b
