"""pyvc.contracts -- sidecar contracts on functions of /repo and their modular use.

A contract is keyed by the function's qualified name and states
  view(*args)         projection of the arguments the contract talks about (pure, harness language)
  requires(p)         precondition (assumed when the body is verified, asserted at call sites)
  returns(p)          fact that holds whenever the function returns normally            (ensures)
  raises[E](p)        fact that holds whenever it raises E; no other class may escape    (exceptional ensures)
  result(p)           optional: the value returned (functional postcondition)
Facts are written over *spec functions* (``@specfn``).  When the contract is **verified** against the
real body the spec functions are unfolded (their Python text is interpreted); when the contract is
**applied** at a call site they stay opaque (uninterpreted), so a caller is checked against the
callee's contract, never its body.
"""
from __future__ import annotations
from .core import z3, PyVal, BoolSort, simp, mk_bool
from .values import Unsupported, PathKilled, PyRaise, SVal, HObj
from .ops import boolval

REGISTRY = {}      # qualified name -> Contract


class Contract:
    def __init__(self, qualname, view, returns=None, raises=None, result=None, requires=None, pure=True, doc=""):
        self.qualname = qualname
        self.view = view
        self.returns = returns
        self.raises = raises or {}
        self.result = result
        self.requires = requires
        self.pure = pure
        self.doc = doc
        REGISTRY[qualname] = self

    def get(self, k, default=None):
        return getattr(self, k, default)


def contract(qualname, **kw):
    return Contract(qualname, **kw)


def _truth(interp, v):
    t = interp.truth_term(v)
    return z3.BoolVal(t) if isinstance(t, bool) else t


def apply_contract(interp, c, clo, args, kwargs):
    """Call-site use: fork over {returns} + raises classes, assuming the contract's facts (opaque specs)."""
    ctx = interp.ctx
    ctx.stats["contract_uses"] = ctx.stats.get("contract_uses", 0) + 1
    ctx.ghost.setdefault("contracts_used", set()).add(c.qualname)
    ctx.opaque_specs += 1
    try:
        p = interp.call(c.view, list(args), kwargs)
        if c.requires is not None:
            pre = _truth(interp, interp.call(c.requires, [p], {}))
            if not ctx.entails(pre):
                raise Unsupported("precondition of %s not established at a call site" % c.qualname)
        alts = []
        if c.returns is not None:
            alts.append(("return", _truth(interp, interp.call(c.returns, [p], {}))))
        else:
            alts.append(("return", z3.BoolVal(True)))
        for cls, fact in c.raises.items():
            alts.append((cls, _truth(interp, interp.call(fact, [p], {})) if fact is not None else z3.BoolVal(True)))
    finally:
        ctx.opaque_specs -= 1
    i = ctx.choose([a[1] for a in alts], labels=["contract:" + (a[0] if isinstance(a[0], str) else a[0].__name__) for a in alts])
    kind = alts[i][0]
    if kind == "return":
        if c.result is not None:
            ctx.opaque_specs += 1
            try:
                return interp.call(c.result, [p], {})
            finally:
                ctx.opaque_specs -= 1
        return None
    interp.raise_(kind)


def spec_apply(interp, fn, args):
    """Opaque application of a spec function: an uninterpreted predicate over the argument terms."""
    name = "spec!" + getattr(fn, "__name__", "f")
    terms = [interp.term_of(a) for a in args]
    f = z3.Function(name, *([PyVal] * len(terms) + [BoolSort]))
    return boolval(interp, f(*terms))
