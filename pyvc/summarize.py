"""pyvc.summarize -- nested exhaustive exploration of a pure region (loop body for a generic element,
comprehension element, quantified spec lambda, void validator call) into a list of outcomes,
each a conjunction of branch conditions plus a result.  Used by the for-each rule (an inductive
invariant generated mechanically for state-free loop bodies) and by outcome merging.
"""
from __future__ import annotations
import itertools
from .core import z3, simp
from .values import Unsupported, PathKilled, PyRaise, SVal, HObj, _oid


class Outcome:
    __slots__ = ("pc", "kind", "value", "exc", "trail")

    def __init__(self, pc, kind, value=None, exc=None, trail=None):
        self.pc = pc
        self.kind = kind        # normal | raise | return | break | continue
        self.value = value
        self.exc = exc
        self.trail = trail

    def cond(self):
        if not self.pc:
            return z3.BoolVal(True)
        return z3.And(*self.pc) if len(self.pc) > 1 else self.pc[0]


def summarize(interp, thunk, bound=(), pure=True, site=None):
    """site: hashable identity of the program point; identical (site, path state) pairs are memoized
    (re-executions of other outer paths reach the same summarization in the same state)."""
    from .core import _fresh_counter, tid
    ctx = interp.ctx
    key = None
    if site is not None:
        key = (site, hash(frozenset(ctx.pc_ids)), len(ctx.pc), _fresh_counter[0], tuple(tid(b) for b in bound), ctx.frozen)
        hit = ctx.summary_cache.get(key)
        if hit is not None:
            ctx.stats["summary_hits"] = ctx.stats.get("summary_hits", 0) + 1
            outs, end_counter = hit
            _fresh_counter[0] = end_counter
            return outs
    outs = _summarize(interp, thunk, bound, pure)
    if key is not None:
        ctx.summary_cache[key] = (outs, _fresh_counter[0])
    return outs


def _summarize(interp, thunk, bound=(), pure=True):
    from .interp import _Return, _Break, _Continue
    ctx = interp.ctx
    saved = (ctx.prefix, ctx.trail, ctx.worklist)
    outcomes = []
    ctx.worklist = [[]]
    nb = len(ctx.bound)
    ctx.bound.extend(bound)
    if pure:
        ctx.frozen += 1
        mark_oid = next(_oid)
        ctx.freeze_marks.append(mark_oid)
    stack_depth = len(interp.call_stack)
    try:
        count = 0
        while ctx.worklist:
            pre = ctx.worklist.pop()
            count += 1
            if count > 4000:
                raise Unsupported("summarized region has too many paths")
            ctx.prefix, ctx.trail = pre, []
            mark = len(ctx.pc)
            ctx.solver.push()
            snap = (dict(ctx.known_tags), set(ctx.wf_done), dict(ctx.ghost), len(ctx.writes), len(ctx.events),
                    len(ctx.checks), len(ctx.covers), set(ctx.pc_ids), len(ctx.lazy))
            snap_lists = {k: list(v) for k, v in ctx.ghost.items() if isinstance(v, list)}
            out = None
            try:
                try:
                    v = thunk()
                    out = Outcome(None, "normal", value=v)
                except PyRaise as pr:
                    out = Outcome(None, "raise", exc=pr.exc)
                except _Return as r:
                    out = Outcome(None, "return", value=r.value)
                except _Break:
                    out = Outcome(None, "break")
                except _Continue:
                    out = Outcome(None, "continue")
                except PathKilled:
                    out = None
                if out is not None:
                    out.pc = list(ctx.pc[mark:])
                    out.trail = list(ctx.trail)
                    outcomes.append(out)
            finally:
                del ctx.pc[mark:]
                ctx.solver.pop()
                ctx.known_tags, ctx.wf_done = snap[0], snap[1]
                ctx.pc_ids = snap[7]
                del ctx.lazy[snap[8]:]
                g = snap[2]
                for k, v in snap_lists.items():
                    g[k] = v
                ctx.ghost = g
                if pure:
                    del ctx.writes[snap[3]:]
                del ctx.events[snap[4]:]
                del ctx.checks[snap[5]:]
                del ctx.covers[snap[6]:]
                del interp.call_stack[stack_depth:]
    finally:
        ctx.prefix, ctx.trail, ctx.worklist = saved
        del ctx.bound[nb:]
        if pure:
            ctx.frozen -= 1
            ctx.freeze_marks.pop()
    return outcomes


def ident(v):
    """Hashable identity of an interpreter value (for memo keys)."""
    from .core import tid
    from .values import HDict, HList, HSet
    if isinstance(v, SVal):
        return ("t", tid(v.t))
    if isinstance(v, HDict):
        if v.mode == "s":
            return ("ds", tid(v.vals), tid(v.n))
        return ("dc", v.oid, tuple((k, ident(x)) for k, x in v.py.items()))
    if isinstance(v, HList):
        if v.mode == "s":
            return ("ls", tid(v.seq))
        return ("lc", v.oid, tuple(ident(x) for x in v.items))
    if isinstance(v, HSet):
        if v.mode == "s":
            return ("ss", tid(v.pred))
        return ("sc", v.oid, tuple(ident(x) for x in v.elems))
    if isinstance(v, tuple):
        return ("tu",) + tuple(ident(x) for x in v)
    if hasattr(v, "oid"):
        return ("o", v.oid)
    try:
        hash(v)
        return ("v", v)
    except TypeError:
        return ("i", id(v))


def disj(conds):
    conds = [c for c in conds]
    if not conds:
        return z3.BoolVal(False)
    if len(conds) == 1:
        return conds[0]
    return z3.Or(*conds)


def merged_call(interp, clo, args, kwargs):
    """Call a pure function and merge its internal paths: one continuation for the normal
    return (result terms merged with ite) and one per raised exception class."""
    ctx = interp.ctx
    try:
        _ident = ident
        akey = tuple(_ident(a) for a in args) + tuple((k, _ident(v)) for k, v in sorted(kwargs.items())) if isinstance(kwargs, dict) else ()
        outs = summarize(interp, lambda: interp.run_closure(clo, args, kwargs), site=("merged", clo.qualname, akey))
    except Unsupported as u:
        if "impure" in str(u):
            return interp.run_closure(clo, args, kwargs)
        raise
    normals = [o for o in outs if o.kind == "normal"]
    raises = {}
    for o in outs:
        if o.kind == "raise":
            raises.setdefault(o.exc.cls, []).append(o)
    alts = []
    if normals:
        alts.append(("normal", disj([o.cond() for o in normals])))
    for cls, os_ in raises.items():
        alts.append((cls, disj([o.cond() for o in os_])))
    if not alts:
        raise PathKilled()
    i = ctx.choose([c for _, c in alts], labels=["merged:" + (k if isinstance(k, str) else k.__name__) for k, _ in alts])
    kind = alts[i][0]
    if kind == "normal":
        vals = [o.value for o in normals]
        if all(v is None for v in vals):
            return None
        if len(normals) == 1:
            return vals[0]
        # merge term-valued results
        try:
            terms = [interp.term_of(v) for v in vals]
        except Unsupported:
            return interp.run_closure(clo, args, kwargs)
        if any(isinstance(v, HObj) for v in vals):
            return interp.run_closure(clo, args, kwargs)
        r = terms[-1]
        for o, t in zip(reversed(normals[:-1]), reversed(terms[:-1])):
            r = z3.If(o.cond(), t, r)
        return interp.from_term(r)
    interp.raise_(kind)
