"""pyvc.core -- SMT value domain for the Python subset joserfc is written in.

One algebraic datatype ``PyVal`` carries every dynamically typed value that can reach the
code under proof (JSON-ish data, header/claims/JWK members, octet strings):

    vabsent                     -- "no value": marks an absent dict key; never a Python value
    vnone | vbool b | vint i | vfloat r | vstr s | vbytes y
    vlist  (Seq PyVal)
    vdict  (d: Int)             -- dict id; content DArr(d): Array String PyVal (key k present <=> DArr(d)[k] != vabsent),
                                   size DN(d); DId(array, n) is the id of a content (bijection, background axioms).
                                   (An array *inside* the datatype made z3 diverge on quantified dict invariants --
                                   measured; the id indirection keeps arrays out of the recursive datatype.)
    vobj   (Int)                -- reference to a heap object / opaque foreign object

``bytes`` are modelled as SMT strings whose characters are the octets (codes 0..255).
Dict iteration *order* is abstracted (every order is considered); documented in DESIGN.md.
"""
from __future__ import annotations
import os
import sys

_HERE = os.path.dirname(os.path.abspath(__file__))
_DEPS = os.path.join(os.path.dirname(_HERE), "deps")
if _DEPS not in sys.path:
    sys.path.append(_DEPS)

import z3  # noqa: E402

z3.set_param("smt.random_seed", 7)

_DECL = """
(declare-datatypes ((PyVal 0)) ((
  (vabsent)
  (vnone)
  (vbool (acc_b Bool))
  (vint (acc_i Int))
  (vfloat (acc_r Real))
  (vstr (acc_s String))
  (vbytes (acc_y String))
  (vlist (acc_l (Seq PyVal)))
  (vdict (acc_d Int))
  (vobj (acc_o Int))
)))
(declare-const __probe PyVal)
(assert (= __probe vnone))
"""

_parsed = z3.parse_smt2_string(_DECL)
PyVal = _parsed[0].arg(0).sort()

C = {}      # constructor name -> FuncDeclRef
R = {}      # recognizer name -> FuncDeclRef  (is_vint ...)
A = {}      # accessor name -> FuncDeclRef
for _i in range(PyVal.num_constructors()):
    _c = PyVal.constructor(_i)
    C[_c.name()] = _c
    R[_c.name()] = PyVal.recognizer(_i)
    for _j in range(_c.arity()):
        _a = PyVal.accessor(_i, _j)
        A[_a.name()] = _a

for _k in list(A.keys()):
    if _k.startswith("acc_"):
        A[_k[4:]] = A[_k]      # short aliases used throughout the engine (the SMT names avoid clashes with input names)

TAGS = ["vabsent", "vnone", "vbool", "vint", "vfloat", "vstr", "vbytes", "vlist", "vdict", "vobj"]

VABSENT = C["vabsent"]()
VNONE = C["vnone"]()
StringSort = z3.StringSort()
IntSort = z3.IntSort()
BoolSort = z3.BoolSort()
RealSort = z3.RealSort()
SeqPV = z3.SeqSort(PyVal)
ArrSV = z3.ArraySort(StringSort, PyVal)
EMPTY_VALS = z3.K(StringSort, VABSENT)


def is_tag(t, tag):
    return R[tag](t)


def mk_bool(b):
    return C["vbool"](b)


def mk_int(i):
    return C["vint"](i)


def mk_float(r):
    return C["vfloat"](r)


def mk_str(s):
    return C["vstr"](s)


def mk_bytes(s):
    return C["vbytes"](s)


def mk_list(seq):
    return C["vlist"](seq)


DArr = z3.Function("DArr", IntSort, ArrSV)
DN = z3.Function("DN", IntSort, IntSort)
DId = z3.Function("DId", ArrSV, IntSort, IntSort)


def mk_dict(vals, n):
    return C["vdict"](DId(vals, n))


def dvals(t):
    """Content array of a dict-valued term."""
    d = z3.simplify(A["d"](t))
    if z3.is_app(d) and d.decl().eq(DId):
        return d.arg(0)
    return DArr(d)


def dn(t):
    d = z3.simplify(A["d"](t))
    if z3.is_app(d) and d.decl().eq(DId):
        return d.arg(1)
    return DN(d)


def background_axioms():
    """DId is a bijection between (content, size) and dict ids."""
    a = z3.Const("a!bg", ArrSV)
    n = z3.Const("n!bg", IntSort)
    i = z3.Const("i!bg", IntSort)
    return [
        z3.ForAll([a, n], z3.And(DArr(DId(a, n)) == a, DN(DId(a, n)) == n), patterns=[DId(a, n)]),
        z3.ForAll([i], DId(DArr(i), DN(i)) == i, patterns=[DArr(i)]),
        z3.ForAll([i], DId(DArr(i), DN(i)) == i, patterns=[DN(i)]),
    ]


def mk_obj(o):
    return C["vobj"](o)


def bytes_to_smt(b: bytes):
    return z3.StringVal(b.decode("latin-1"))


def smt_str_to_py(s: str) -> str:
    return s


def lift(v):
    """Concrete Python value -> PyVal term (JSON-ish values only). Raises TypeError otherwise."""
    if v is None:
        return VNONE
    if isinstance(v, bool):
        return mk_bool(z3.BoolVal(v))
    if isinstance(v, int):
        return mk_int(z3.IntVal(v))
    if isinstance(v, float):
        if v != v or v in (float("inf"), float("-inf")):
            raise TypeError("non-finite float")
        num, den = v.as_integer_ratio()
        return mk_float(z3.RealVal(num) / z3.RealVal(den)) if den != 1 else mk_float(z3.RealVal(num))
    if isinstance(v, str):
        return mk_str(z3.StringVal(v))
    if isinstance(v, (bytes, bytearray)):
        return mk_bytes(bytes_to_smt(bytes(v)))
    if isinstance(v, (list, tuple)):
        seq = z3.Empty(SeqPV)
        items = [z3.Unit(lift(x)) for x in v]
        if not items:
            return mk_list(seq)
        if len(items) == 1:
            return mk_list(items[0])
        return mk_list(z3.Concat(*items))
    if isinstance(v, dict):
        vals = EMPTY_VALS
        for k, x in v.items():
            if not isinstance(k, str):
                raise TypeError("non-str dict key")
            vals = z3.Store(vals, z3.StringVal(k), lift(x))
        return mk_dict(vals, z3.IntVal(len(v)))
    raise TypeError("cannot lift %r" % type(v))


def _is_app_of(t, decl):
    return z3.is_app(t) and t.decl().eq(decl)


def head_tag(t):
    """Tag of a term whose head symbol is a constructor, else None."""
    if not z3.is_app(t):
        return None
    d = t.decl()
    for name in TAGS:
        if d.eq(C[name]):
            return name
    return None


class NotConcrete(Exception):
    pass


def _str_value(t):
    if z3.is_string_value(t):
        return t.as_string()
    raise NotConcrete()


def _unescape(s: str) -> str:
    # z3 prints non-printable characters as \u{hh}
    out = []
    i = 0
    n = len(s)
    while i < n:
        if s.startswith("\\u{", i):
            j = s.index("}", i)
            out.append(chr(int(s[i + 3:j], 16)))
            i = j + 1
        else:
            out.append(s[i])
            i += 1
    return "".join(out)


def str_value(t) -> str:
    return _unescape(_str_value(t))


def _seq_items(t):
    """Concrete items of a Seq term built from Empty / Unit / Concat."""
    if z3.is_app(t):
        k = t.decl().kind()
        if k == z3.Z3_OP_SEQ_EMPTY:
            return []
        if k == z3.Z3_OP_SEQ_UNIT:
            return [t.arg(0)]
        if k == z3.Z3_OP_SEQ_CONCAT:
            out = []
            for i in range(t.num_args()):
                out.extend(_seq_items(t.arg(i)))
            return out
    raise NotConcrete()


def _array_items(t):
    """Concrete (key, value-term) pairs of an array built from K(absent) / Store."""
    items = {}
    order = []
    cur = t
    stack = []
    while True:
        if z3.is_app(cur) and cur.decl().kind() == z3.Z3_OP_STORE:
            stack.append((cur.arg(1), cur.arg(2)))
            cur = cur.arg(0)
            continue
        if z3.is_app(cur) and cur.decl().kind() == z3.Z3_OP_CONST_ARRAY:
            if head_tag(cur.arg(0)) != "vabsent":
                raise NotConcrete()
            break
        raise NotConcrete()
    for k, v in reversed(stack):
        ks = str_value(k)
        if ks not in items:
            order.append(ks)
        items[ks] = v
    return [(k, items[k]) for k in order]


def lower(t):
    """PyVal term -> concrete Python value if the term is a literal, else raise NotConcrete.
    The term should be simplified first."""
    tag = head_tag(t)
    if tag is None:
        raise NotConcrete()
    if tag == "vnone":
        return None
    if tag == "vabsent":
        raise NotConcrete()
    a = t.arg(0) if t.num_args() else None
    if tag == "vbool":
        if z3.is_true(a):
            return True
        if z3.is_false(a):
            return False
        raise NotConcrete()
    if tag == "vint":
        if z3.is_int_value(a):
            return a.as_long()
        raise NotConcrete()
    if tag == "vfloat":
        if z3.is_rational_value(a):
            return a.numerator_as_long() / a.denominator_as_long()
        raise NotConcrete()
    if tag == "vstr":
        return str_value(a)
    if tag == "vbytes":
        return str_value(a).encode("latin-1")
    if tag == "vlist":
        return [lower(x) for x in _seq_items(a)]
    if tag == "vdict":
        out = {}
        if not (z3.is_app(a) and a.decl().eq(DId)):
            raise NotConcrete()
        for k, v in _array_items(a.arg(0)):
            if head_tag(v) == "vabsent":
                out.pop(k, None)
            else:
                out[k] = lower(v)
        return out
    raise NotConcrete()


def simp(t):
    return z3.simplify(t)


_fresh_counter = [0]


def fresh_name(prefix):
    _fresh_counter[0] += 1
    return "%s!%d" % (prefix, _fresh_counter[0])


def reset_fresh():
    _fresh_counter[0] = 0


_KEEPALIVE = []


def tid(t):
    """Stable identity of a term: the AST id, with the term kept alive so the id is never reused."""
    _KEEPALIVE.append(t)
    return t.get_id()


Nth = z3.Function("Nth", SeqPV, IntSort, PyVal)     # element of a list at an in-range index (trigger-friendly form of seq.nth)


_BAD_PATTERN_OPS = None


def _valid_pattern(p):
    global _BAD_PATTERN_OPS
    if _BAD_PATTERN_OPS is None:
        _BAD_PATTERN_OPS = {z3.Z3_OP_ITE, z3.Z3_OP_AND, z3.Z3_OP_OR, z3.Z3_OP_NOT, z3.Z3_OP_EQ, z3.Z3_OP_IMPLIES,
                            z3.Z3_OP_DISTINCT, z3.Z3_OP_LE, z3.Z3_OP_GE, z3.Z3_OP_LT, z3.Z3_OP_GT, z3.Z3_OP_TRUE, z3.Z3_OP_FALSE}
    stack = [p]
    top = True
    while stack:
        t = stack.pop()
        if not z3.is_app(t):
            continue
        k = t.decl().kind()
        if k in _BAD_PATTERN_OPS:
            return False
        if top and t.num_args() == 0:
            return False
        top = False
        for i in range(t.num_args()):
            stack.append(t.arg(i))
    return True


def forall(vars_, body, patterns=()):
    """ForAll with explicit triggers when they are valid patterns, inferred triggers otherwise."""
    pats = []
    for p in patterns:
        if p is None:
            continue
        # each alternative trigger must be a valid pattern on its own (an uninterpreted/array/seq application
        # without ite or connectives); checked syntactically so that z3 prints no warnings
        if _valid_pattern(p):
            pats.append(p)
    if pats:
        try:
            return z3.ForAll(vars_, body, patterns=pats)
        except z3.Z3Exception:
            pass
    return z3.ForAll(vars_, body)
