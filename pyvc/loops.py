"""pyvc.loops -- for loops, comprehensions, all/any.

Concrete short iterables are unrolled.  Everything else goes through the *for-each rule*: the body
is explored once for a generic element (a bound variable) under the hypothesis that it is a member;
if the body carries no state across iterations (checked: it may only write objects it allocated
itself) then
    loop completes normally   ==>  forall e in coll. body(e) completes normally
    loop leaves abruptly      ==>  exists e in coll. body(e) leaves that way
which is an inductive invariant generated mechanically (iteration *order* is abstracted).
"""
from __future__ import annotations
from .core import forall
import ast
from .core import (z3, PyVal, A, C, VABSENT, StringSort, IntSort, BoolSort, SeqPV, mk_bool, mk_str, mk_int, mk_list,
                   simp, is_tag)
from .values import (Unsupported, PathKilled, PyRaise, SVal, HObj, HDict, HList, HSet, DictView, Foreign)
from .summarize import summarize, Outcome, disj, ident
from . import builtins_impl as B
from .ops import is_plain, boolval

UNROLL_LIMIT = 3


class Poison:
    """Value of a variable assigned inside a generically-treated loop body, read after the loop."""
    def __repr__(self):
        return "<Poison>"


class GenExp:
    def __init__(self, node, frame):
        self.node = node
        self.frame = frame


class SymText:
    """Iteration over the characters / octets of symbolic text."""
    def __init__(self, t, tg):
        self.t = t
        self.tg = tg


class SymEnumerate:
    def __init__(self, hlist):
        self.l = hlist


class Generic:
    """Description of a generic element of a symbolic collection."""
    def __init__(self, bv, member, value, pattern=None, length=None):
        self.length = length
        self.bv = bv            # bound variable (z3 const)
        self.member = member    # Bool term: bv denotes an element
        self.value = value      # interpreter value bound to the loop target
        self.pattern = pattern


def nth_bridge(ctx, seq):
    """Nth(seq, i) is seq[i] for in-range i (definition of the trigger-friendly accessor)."""
    from .core import Nth, tid
    key = ("nth", tid(seq))
    if key in ctx.ghost:
        return
    ctx.ghost[key] = True
    i = z3.Const("i!nth", IntSort)
    ctx.axiom(forall([i], z3.Implies(z3.And(i >= 0, i < z3.Length(seq)), Nth(seq, i) == seq[i]), patterns=[Nth(seq, i)]),
              "Nth(seq, i) = seq[i] for 0 <= i < len(seq)")


def generic_element(interp, it, name="e"):
    """Generic (bound) element of a symbolic iterable, or None if the iterable is concrete."""
    ctx = interp.ctx
    if isinstance(it, HDict) and it.mode == "s":
        k = z3.Const(B.fresh_bv("k"), StringSort)
        return Generic(k, z3.Select(it.vals, k) != VABSENT, SVal(mk_str(k)), z3.Select(it.vals, k))
    if isinstance(it, DictView) and it.d.mode == "s":
        k = z3.Const(B.fresh_bv("k"), StringSort)
        sel = z3.Select(it.d.vals, k)
        if it.kind == "keys":
            val = SVal(mk_str(k))
        elif it.kind == "values":
            val = SVal(sel)
        else:
            val = (SVal(mk_str(k)), SVal(sel))
        return Generic(k, sel != VABSENT, val, sel)
    if isinstance(it, HSet) and it.mode == "s":
        k = z3.Const(B.fresh_bv("k"), StringSort)
        return Generic(k, z3.Select(it.pred, k), SVal(mk_str(k)), z3.Select(it.pred, k))
    if isinstance(it, HList) and it.mode == "s":
        from .core import Nth
        i = z3.Const(B.fresh_bv("i"), IntSort)
        el = Nth(it.seq, i)
        nth_bridge(ctx, it.seq)
        return Generic(i, z3.And(i >= 0, i < z3.Length(it.seq)), SVal(el), el, z3.Length(it.seq))
    if isinstance(it, SymText):
        i = z3.Const(B.fresh_bv("i"), IntSort)
        ch = z3.SubString(it.t, i, 1)
        val = SVal(mk_str(ch)) if it.tg == "vstr" else SVal(mk_int(z3.StrToCode(ch)))
        return Generic(i, z3.And(i >= 0, i < z3.Length(it.t)), val, None, z3.Length(it.t))
    if isinstance(it, SymEnumerate):
        from .core import Nth
        i = z3.Const(B.fresh_bv("i"), IntSort)
        seq = it.l.seq
        el = Nth(seq, i)
        nth_bridge(ctx, seq)
        return Generic(i, z3.And(i >= 0, i < z3.Length(seq)), (SVal(mk_int(i)), SVal(el)), el, z3.Length(seq))
    return None


def concrete_items(interp, it):
    if isinstance(it, DictView):
        if it.d.mode == "c":
            return interp.iter_concrete(it)
        return None
    if isinstance(it, (HDict, HList, HSet)):
        if it.mode == "c":
            return interp.iter_concrete(it)
        return None
    if isinstance(it, (tuple, str, bytes)):
        return list(it)
    if isinstance(it, (SymEnumerate, SymText)):
        return None
    if isinstance(it, HObj):
        f = interp.class_lookup(it.cls, "__iter__")
        import types
        if isinstance(f, types.FunctionType):
            r = interp.call(interp.bind(f, it, it.cls), [], {})
            return concrete_items(interp, B.container(interp, r))
    if interp.is_repo_instance(it):
        f = interp.class_lookup(type(it), "__iter__")
        import types
        if isinstance(f, types.FunctionType):
            r = interp.call(interp.bind(f, it, type(it)), [], {})
            return concrete_items(interp, B.container(interp, r))
    raise Unsupported("iteration over %r" % (it,))


def _iterable(interp, v):
    v = B.container(interp, v)
    if isinstance(v, SVal):
        tg = interp.tag(v)
        if tg in ("vnone", "vint", "vbool", "vfloat"):
            interp.raise_(TypeError, "object is not iterable")
        if tg in ("vstr", "vbytes"):
            return SymText(interp.text_term(v), tg)
        raise Unsupported("iteration over %s" % tg)
    if v is None or isinstance(v, (int, float)):
        interp.raise_(TypeError, "object is not iterable")
    return v


def assigned_names(stmts):
    names = set()
    for s in stmts:
        for n in ast.walk(s):
            if isinstance(n, ast.Name) and isinstance(n.ctx, ast.Store):
                names.add(n.id)
    return names


def exec_for(interp, s, frame):
    from .interp import _Break, _Continue, Env
    it = _iterable(interp, interp.eval(s.iter, frame))
    items = concrete_items(interp, it)
    in_harness = str(frame.clo.glob.get("__name__", "")).startswith(("props", "pyvc.api"))
    if items is not None and (len(items) <= UNROLL_LIMIT or in_harness):
        return unroll(interp, s, frame, items)
    if items is not None:
        try:
            return foreach_concrete(interp, s, frame, items)
        except Unsupported as u:
            if "impure" not in str(u):
                raise
        return unroll(interp, s, frame, items)
    g = generic_element(interp, it)
    if g is None:
        raise Unsupported("for loop over %r" % (it,))
    return foreach_generic(interp, s, frame, g)


def unroll(interp, s, frame, items):
    from .interp import _Break, _Continue
    broke = False
    for x in items:
        interp.assign(s.target, x, frame)
        try:
            interp.exec_block(s.body, frame)
        except _Break:
            broke = True
            break
        except _Continue:
            continue
    if not broke and s.orelse:
        interp.exec_block(s.orelse, frame)


def _body_thunk(interp, s, frame, value, member=None):
    from .interp import Env, Frame

    def thunk():
        if member is not None:
            interp.ctx.add(member)
        sub = Frame(Env({}, frame.env), frame.clo)
        sub.handling = frame.handling
        interp.assign(s.target, value, sub)
        interp.exec_block(s.body, sub)
        return None
    return thunk


def _poison_after(s, frame):
    for n in assigned_names(s.body) | assigned_names([ast.Expr(value=s.target)] if False else []):
        frame.env.vars[n] = Poison()
    for n in ast.walk(s.target):
        if isinstance(n, ast.Name):
            frame.env.vars[n.id] = Poison()


def _env_ident(frame):
    """Identity of the local environment a summarized region can read (the innermost function frame)."""
    items = []
    e = frame.env
    depth = 0
    while e is not None and depth < 3:
        for k, v in e.vars.items():
            try:
                items.append((k, ident(v)))
            except Exception:
                items.append((k, id(v)))
        e = e.parent
        depth += 1
    return tuple(items)


def _alt_labels(alts):
    out = []
    n = 0
    for kind, _c, extra in alts:
        if kind == "raise":
            out.append("loop:raise:" + extra.__name__)
        elif kind == "normal":
            out.append("loop:normal")
        else:
            n += 1
            out.append("loop:%s:%d:%s" % (kind, n, ",".join(str(x) for x in (extra.trail or []))))
    return out


def foreach_concrete(interp, s, frame, items):
    """For-each rule over a concrete (long) collection: the body is summarized per element."""
    from .interp import _Return, _Break
    ctx = interp.ctx
    per = []
    for x in items:
        outs = summarize(interp, _body_thunk(interp, s, frame, x), site=(id(s), 'for', len(per), ident(x), _env_ident(frame)))
        per.append(outs)
    normal_conds = [disj([o.cond() for o in outs if o.kind in ("normal", "continue")]) for outs in per]
    alts = [("normal", z3.And(*normal_conds) if normal_conds else z3.BoolVal(True), None)]
    # raising outcomes grouped by class across elements (earlier elements completed normally)
    groups = {}
    others = []
    for j, outs in enumerate(per):
        prev = normal_conds[:j]
        for o in outs:
            c = z3.And(*(prev + [o.cond()])) if prev else o.cond()
            if o.kind == "raise":
                groups.setdefault(o.exc.cls, []).append(c)
            elif o.kind in ("return", "break"):
                others.append((o, c))
    for cls, cs in groups.items():
        alts.append(("raise", disj(cs), cls))
    for o, c in others:
        alts.append((o.kind, c, o))
    i = ctx.choose([a[1] for a in alts], labels=_alt_labels(alts))
    kind, _, extra = alts[i]
    if kind == "normal":
        _poison_after(s, frame)
        if s.orelse:
            interp.exec_block(s.orelse, frame)
        return
    if kind == "raise":
        interp.raise_(extra)
    if kind == "return":
        if isinstance(extra.value, HObj) and extra.value.oid >= 0 and not getattr(extra.value, "pre_existing", False):
            raise Unsupported("return of an object allocated inside a summarized loop body")
        raise _Return(extra.value)
    if kind == "break":
        _poison_after(s, frame)
        return


def subst_value(interp, v, bv, star):
    if isinstance(v, SVal):
        return interp.from_term(z3.substitute(v.t, (bv, star)))
    if isinstance(v, tuple):
        return tuple(subst_value(interp, x, bv, star) for x in v)
    if is_plain(v):
        return v
    if isinstance(v, (HObj, Foreign)) and (getattr(v, "pre_existing", False)):
        return v
    if not isinstance(v, (SVal, HObj, HDict, HList, HSet, Foreign)):
        return v   # live object
    raise Unsupported("result of a generic loop body is a freshly allocated object")


def foreach_generic(interp, s, frame, g):
    from .interp import _Return
    ctx = interp.ctx
    outs = summarize(interp, _body_thunk(interp, s, frame, g.value, g.member), bound=[g.bv], site=(id(s), 'forg', ident(g.value), _env_ident(frame)))
    normal = disj([o.cond() for o in outs if o.kind in ("normal", "continue")])
    allnormal = forall([g.bv], z3.Implies(g.member, normal), patterns=[g.pattern] if g.pattern is not None else [])
    star = ctx.fresh("elem", g.bv.sort())
    mem_star = z3.substitute(g.member, (g.bv, star))
    alts = [("normal", allnormal, None)]
    groups = {}
    for o in outs:
        if o.kind == "raise":
            groups.setdefault(o.exc.cls, []).append(o.cond())
        elif o.kind in ("return", "break"):
            alts.append((o.kind, z3.And(mem_star, z3.substitute(o.cond(), (g.bv, star))), o))
    for cls, cs in groups.items():
        alts.append(("raise", z3.And(mem_star, z3.substitute(disj(cs), (g.bv, star))), cls))
    i = ctx.choose([a[1] for a in alts], labels=_alt_labels(alts))
    kind, _, extra = alts[i]
    if kind == "normal":
        _poison_after(s, frame)
        if s.orelse:
            interp.exec_block(s.orelse, frame)
        return
    if kind == "raise":
        interp.raise_(extra)
    if kind == "return":
        raise _Return(subst_value(interp, extra.value, g.bv, star))
    _poison_after(s, frame)


def exec_while(interp, s, frame):
    from .interp import _Break, _Continue
    n = 0
    while True:
        if not interp.truthy(interp.eval(s.test, frame)):
            break
        n += 1
        if n > 64:
            raise Unsupported("while loop without invariant exceeded the unrolling budget")
        try:
            interp.exec_block(s.body, frame)
        except _Break:
            return
        except _Continue:
            continue
    if s.orelse:
        interp.exec_block(s.orelse, frame)


# ---------------------------------------------------------------------------------------------
# comprehensions and quantifiers

def _comp_thunk(interp, node, frame, value, member, elt_fn):
    from .interp import Env, Frame
    gen = node.generators[0]

    def thunk():
        if member is not None:
            interp.ctx.add(member)
        sub = Frame(Env({}, frame.env), frame.clo)
        sub.handling = frame.handling
        interp.assign(gen.target, value, sub)
        for cond in gen.ifs:
            if not interp.truthy(interp.eval(cond, sub)):
                return ("skip", None)
        return ("keep", elt_fn(sub))
    return thunk


def eval_comprehension(interp, node, frame, kind):
    from .interp import Env, Frame
    if len(node.generators) != 1 or node.generators[0].is_async:
        raise Unsupported("nested comprehension")
    gen = node.generators[0]
    it0 = interp.eval(gen.iter, frame)
    from .trusted import OctetTuple, HexPairs
    if isinstance(it0, OctetTuple):
        # ["%02x" % byte for byte in <octets of data>]  -- trusted composite: two hex digits per octet
        e = node.elt
        if (kind == "list" and not gen.ifs and isinstance(e, ast.BinOp) and isinstance(e.op, ast.Mod)
                and isinstance(e.left, ast.Constant) and e.left.value == "%02x"
                and isinstance(e.right, ast.Name) and isinstance(gen.target, ast.Name) and e.right.id == gen.target.id):
            return HexPairs(it0.data)
        raise Unsupported("comprehension over the octets of symbolic data")
    it = _iterable(interp, it0)
    items = concrete_items(interp, it)
    if kind == "dict":
        elt_fn = lambda fr: (interp.eval(node.key, fr), interp.eval(node.value, fr))
    else:
        elt_fn = lambda fr: interp.eval(node.elt, fr)
    if items is not None:
        if kind == "list":
            out = HList(items=[])
        elif kind == "set":
            out = HSet(elems=[])
        else:
            out = HDict(py={})
        for x in items:
            sub = Frame(Env({}, frame.env), frame.clo)
            sub.handling = frame.handling
            interp.assign(gen.target, x, sub)
            keep = True
            for cond in gen.ifs:
                if not interp.truthy(interp.eval(cond, sub)):
                    keep = False
                    break
            if not keep:
                continue
            v = elt_fn(sub)
            if kind == "list":
                out.items.append(v)
            elif kind == "set":
                B.set_add(interp, out, v)
            else:
                B.setitem(interp, out, v[0], v[1], fresh_target=True)
        return out
    g = generic_element(interp, it)
    if g is None:
        raise Unsupported("comprehension over %r" % (it,))
    ctx = interp.ctx
    outs = summarize(interp, _comp_thunk(interp, node, frame, g.value, g.member, elt_fn), bound=[g.bv], site=(id(node), 'comp', ident(g.value), _env_ident(frame)))
    _abrupt_alternatives(interp, outs, g)
    if kind == "set":
        # only `{x for x in coll if cond}` with x the element itself (a predicate subset)
        if not (isinstance(node.elt, ast.Name) and isinstance(gen.target, ast.Name) and node.elt.id == gen.target.id
                and g.bv.sort() == StringSort):
            raise Unsupported("set comprehension over a symbolic collection with a mapped element")
        keep = disj([o.cond() for o in outs if o.kind == "normal" and o.value[0] == "keep"])
        r = ctx.fresh("setcomp", z3.ArraySort(StringSort, BoolSort))
        pats = [z3.Select(r, g.bv)] + ([g.pattern] if g.pattern is not None else [])
        ctx.axiom(forall([g.bv], z3.Select(r, g.bv) == z3.And(g.member, keep), patterns=pats),
                  "set comprehension as a predicate subset")
        return HSet(pred=r)
    if kind == "list":
        if gen.ifs:
            raise Unsupported("filtered list comprehension over a symbolic collection")
        if g.bv.sort() != IntSort:
            raise Unsupported("list comprehension over a symbolic mapping")
        normals = [o for o in outs if o.kind == "normal"]
        terms = [interp.term_of(o.value[1]) for o in normals]
        val = terms[-1]
        for o, t in zip(reversed(normals[:-1]), reversed(terms[:-1])):
            val = z3.If(o.cond(), t, val)
        r = ctx.fresh("listcomp", SeqPV)
        src_len = g.length
        from .core import Nth
        ctx.axiom(z3.Length(r) == src_len, "list comprehension preserves length")
        pats = [Nth(r, g.bv)] + ([g.pattern] if g.pattern is not None else [])
        ctx.axiom(forall([g.bv], z3.Implies(g.member, Nth(r, g.bv) == val), patterns=pats),
                  "list comprehension element-wise definition")
        nth_bridge(ctx, r)
        return HList(seq=r)
    raise Unsupported("dict comprehension over a symbolic collection")


def _abrupt_alternatives(interp, outs, g):
    """Fork: either no element leaves abruptly (assumed as a universally quantified fact),
    or some element raises (one continuation per exception class)."""
    ctx = interp.ctx
    groups = {}
    for o in outs:
        if o.kind == "raise":
            groups.setdefault(o.exc.cls, []).append(o.cond())
        elif o.kind != "normal":
            raise Unsupported("control flow out of a comprehension")
    if not groups:
        return
    ok = disj([o.cond() for o in outs if o.kind == "normal"])
    alts = [forall([g.bv], z3.Implies(g.member, ok), patterns=[g.pattern] if g.pattern is not None else [])]
    star = ctx.fresh("elem", g.bv.sort())
    mem_star = z3.substitute(g.member, (g.bv, star))
    classes = list(groups)
    for cls in classes:
        alts.append(z3.And(mem_star, z3.substitute(disj(groups[cls]), (g.bv, star))))
    i = ctx.choose(alts, labels=["comp:ok"] + ["comp:raise:" + c.__name__ for c in classes])
    if i > 0:
        interp.raise_(classes[i - 1])


def eval_genexp_list(interp, ge):
    node = ast.ListComp(elt=ge.node.elt, generators=ge.node.generators)
    return eval_comprehension(interp, node, ge.frame, "list")


def quant_over(interp, v, is_all):
    """all(v) / any(v) as a Bool term (no forking on elements)."""
    ctx = interp.ctx
    if isinstance(v, GenExp):
        node, frame = v.node, v.frame
        if len(node.generators) != 1:
            raise Unsupported("nested generator expression")
        gen = node.generators[0]
        it = _iterable(interp, interp.eval(gen.iter, frame))
        items = concrete_items(interp, it)
        elt_fn = lambda fr: interp.eval(node.elt, fr)
        if items is not None:
            # python semantics: short-circuit, element by element
            from .interp import Env, Frame
            for x in items:
                sub = Frame(Env({}, frame.env), frame.clo)
                sub.handling = frame.handling
                interp.assign(gen.target, x, sub)
                keep = True
                for cond in gen.ifs:
                    if not interp.truthy(interp.eval(cond, sub)):
                        keep = False
                        break
                if not keep:
                    continue
                t = interp.truthy(elt_fn(sub))
                if is_all and not t:
                    return False
                if not is_all and t:
                    return True
            return is_all
        g = generic_element(interp, it)
        if g is None:
            raise Unsupported("all/any over %r" % (it,))
        outs = summarize(interp, _comp_thunk(interp, node, frame, g.value, g.member, elt_fn), bound=[g.bv], site=(id(node), 'quant', ident(g.value), _env_ident(frame)))
        # an element that raises before the verdict is reached: over-approximated by "some element raises"
        _abrupt_alternatives(interp, outs, g)
        sat_parts = []
        skip_parts = []
        for o in outs:
            if o.kind != "normal":
                continue
            if o.value[0] == "skip":
                skip_parts.append(o.cond())
            else:
                tt = interp.truth_term(o.value[1])
                tt = z3.BoolVal(tt) if isinstance(tt, bool) else tt
                sat_parts.append(z3.And(o.cond(), tt))
        pats = [g.pattern] if g.pattern is not None else []
        if is_all:
            body = disj(sat_parts + skip_parts)
            return boolval(interp, forall([g.bv], z3.Implies(g.member, body), patterns=pats))
        body = disj(sat_parts)
        return boolval(interp, z3.Exists([g.bv], z3.And(g.member, body)))
    v = _iterable(interp, v)
    items = concrete_items(interp, v)
    if items is not None:
        parts = []
        for x in items:
            t = interp.truth_term(x)
            if isinstance(t, bool):
                if is_all and not t:
                    return False
                if not is_all and t:
                    return True
                continue
            parts.append(t)
        if not parts:
            return is_all
        return boolval(interp, z3.And(*parts) if is_all else z3.Or(*parts))
    g = generic_element(interp, v)
    if g is None:
        raise Unsupported("all/any over %r" % (v,))
    tt = interp.truth_term(g.value if not isinstance(g.value, tuple) else g.value)
    tt = z3.BoolVal(tt) if isinstance(tt, bool) else tt
    if is_all:
        return boolval(interp, forall([g.bv], z3.Implies(g.member, tt)))
    return boolval(interp, z3.Exists([g.bv], z3.And(g.member, tt)))
