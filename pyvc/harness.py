"""pyvc.harness -- symbolic evaluator of the harness language (see pyvc.api)."""
from __future__ import annotations
import os
from .core import forall
from .core import (z3, PyVal, A, C, VABSENT, VNONE, StringSort, IntSort, BoolSort, RealSort, SeqPV, mk_bool, mk_int, mk_float,
                   mk_str, mk_bytes, mk_list, mk_dict, simp, is_tag, head_tag)
from .values import Unsupported, PathKilled, PyRaise, SVal, HObj, HDict, HList, HSet, Foreign, Closure
from .ops import is_plain, boolval
from .summarize import summarize, disj
from . import api
from . import spec as S
from . import builtins_impl as B
from . import loops

ArrSV = z3.ArraySort(StringSort, PyVal)


def _record_input(interp, name, kind, *terms):
    interp.ctx.inputs[name] = (kind,) + terms


def _json_facts(ctx, t):
    ctx.add(S.IsJSONValue(t))
    ctx.add(z3.Not(z3.Or(is_tag(t, "vabsent"), is_tag(t, "vobj"), is_tag(t, "vbytes"))))
    from .core import DArr
    ctx.add(z3.Implies(is_tag(t, "vdict"), S.IsJSONVals(DArr(A["d"](t)))))


def as_bool_term(interp, v):
    t = interp.truth_term(v)
    return z3.BoolVal(t) if isinstance(t, bool) else t


def install(cfg):
    @cfg.stub(api.sym_int)
    def sym_int(interp, name, default=0):
        x = z3.Int(name)
        _record_input(interp, name, "int", x)
        return SVal(mk_int(x))

    @cfg.stub(api.sym_bool)
    def sym_bool(interp, name, default=False):
        x = z3.Bool(name)
        _record_input(interp, name, "bool", x)
        return SVal(mk_bool(x))

    @cfg.stub(api.sym_str)
    def sym_str(interp, name, default=""):
        x = z3.String(name)
        _record_input(interp, name, "str", x)
        return SVal(mk_str(x))

    @cfg.stub(api.sym_bytes)
    def sym_bytes(interp, name, default=b""):
        x = z3.String(name)
        _record_input(interp, name, "bytes", x)
        # octets: character codes below 256 (assumed, not asserted: no obligation depends on it)
        return SVal(mk_bytes(x))

    @cfg.stub(api.sym_json)
    def sym_json(interp, name, default=None):
        x = z3.Const(name, PyVal)
        _record_input(interp, name, "json", x)
        _json_facts(interp.ctx, x)
        return SVal(x)

    @cfg.stub(api.sym_dict)
    def sym_dict(interp, name, default=None):
        vals = z3.Const(name + ".vals", ArrSV)
        n = z3.Const(name + ".n", IntSort)
        _record_input(interp, name, "dict", vals, n)
        d = HDict(vals=vals, n=n, pre_existing=False, label=name)
        interp.ctx.add(S.IsJSONVals(vals))
        t = interp.ctx.dict_term(vals, n)
        interp.ctx.add(S.IsJSONValue(t))
        interp.dict_wf(t)
        return d

    @cfg.stub(api.sym_list)
    def sym_list(interp, name, default=None):
        seq = z3.Const(name + ".seq", SeqPV)
        _record_input(interp, name, "list", seq)
        interp.ctx.add(S.IsJSONValue(mk_list(seq)))
        return HList(seq=seq, label=name)

    @cfg.stub(api.sym_choice)
    def sym_choice(interp, name, options):
        opts = interp.iter_concrete(B.container(interp, options))
        x = z3.Int(name)
        _record_input(interp, name, "choice", x, len(opts))
        i = interp.ctx.choose([x == j for j in range(len(opts))])
        return opts[i]

    @cfg.stub(api.assume)
    def assume(interp, cond):
        f = as_bool_term(interp, cond)
        if z3.is_app(f) and f.decl().kind() == z3.Z3_OP_SEQ_IN_RE:
            interp.ctx.axiom(f)
        else:
            interp.ctx.add(f)
        return None

    @cfg.stub(api.check)
    def check(interp, cond, label=""):
        ctx = interp.ctx
        goal = as_bool_term(interp, cond)
        ctx.checks.append((label, simp(goal), list(ctx.pc), dict(ctx.inputs)))
        status = ctx.on_check(label, simp(goal))
        if status == "proved":
            ctx.add(goal)       # a discharged obligation may be used by later ones on this path
        return None

    @cfg.stub(api.cover)
    def cover(interp, label):
        interp.ctx.covers.append(label)
        return None

    @cfg.stub(api.note)
    def note(interp, *a):
        import os
        if os.environ.get("PYVC_TRACE"):
            print("NOTE:", [str(getattr(x, "t", x))[:300] for x in a], flush=True)
        return None

    @cfg.stub(api.call)
    def call(interp, fn, *args, **kwargs):
        ctx = interp.ctx
        out = HObj(api.Outcome)
        w0 = len(ctx.writes)
        # objects that exist when the call starts are shared state from the call's point of view, except the
        # containers handed over as this call's own arguments (header, claims, JSON serialization object)
        from .values import _oid
        out.attrs["mark"] = next(_oid)
        out.attrs["own_args"] = [a for a in list(args) + list(kwargs.values()) if isinstance(a, (HDict, HList, HSet))]
        ctx.in_call_under_proof += 1
        try:
            v = interp.call(fn, list(args), kwargs)
            out.attrs.update(returned=True, value=v, exc=None)
        except PyRaise as pr:
            out.attrs.update(returned=False, value=None, exc=pr.exc)
            ctx.ghost["last_exc"] = "%s at %s" % (getattr(pr.exc.cls, "__name__", "?"), " > ".join(pr.exc.attrs.get("__site__", [])[-3:]))
            if os.environ.get("PYVC_ESCAPES"):
                print("ESCAPE " + ctx.ghost["last_exc"] + " " + repr(pr.exc.attrs.get("args"))[:80], flush=True)
        finally:
            ctx.in_call_under_proof -= 1
        out.attrs["writes"] = list(ctx.writes[w0:])
        return out

    @cfg.stub(api.assume_returns)
    def assume_returns(interp, fn, *args, **kwargs):
        try:
            return interp.call(fn, list(args), kwargs)
        except PyRaise:
            raise PathKilled()

    @cfg.stub(api.implies)
    def implies(interp, a, b):
        return boolval(interp, simp(z3.Implies(as_bool_term(interp, a), as_bool_term(interp, b))))

    @cfg.stub(api.iff)
    def iff(interp, a, b):
        return boolval(interp, simp(as_bool_term(interp, a) == as_bool_term(interp, b)))

    def quant(interp, coll, f, is_all):
        coll = B.container(interp, coll)
        items = loops.concrete_items(interp, coll) if not (isinstance(coll, (HDict, HList, HSet)) and coll.mode == "s") else None
        if items is not None:
            parts = [as_bool_term(interp, interp.call(f, [x], {})) for x in items]
            if not parts:
                return is_all
            return boolval(interp, simp(z3.And(*parts) if is_all else z3.Or(*parts)))
        g = loops.generic_element(interp, coll)
        if g is None:
            raise Unsupported("quantifier over %r" % (coll,))

        def thunk():
            interp.ctx.add(g.member)
            return interp.call(f, [g.value], {})
        from .summarize import ident as _ident
        envk = ()
        if isinstance(f, Closure) and f.env is not None:
            envk = tuple((k_, _ident(v_)) for k_, v_ in f.env.vars.items())
        site = (id(getattr(f, 'node', f)), 'specq', is_all, _ident(g.value), _ident(coll), envk)
        outs = summarize(interp, thunk, bound=[g.bv], site=site)
        parts = []
        for o in outs:
            if o.kind != "normal":
                raise Unsupported("spec lambda raised %r" % (o.exc,))
            parts.append(z3.And(o.cond(), as_bool_term(interp, o.value)))
        body = disj(parts)
        pats = [g.pattern] if g.pattern is not None else []
        if is_all:
            return boolval(interp, forall([g.bv], z3.Implies(g.member, body), patterns=pats))
        return boolval(interp, z3.Exists([g.bv], z3.And(g.member, body)))

    @cfg.stub(api.forall_keys)
    def forall_keys(interp, d, f):
        return quant(interp, d, f, True)

    @cfg.stub(api.exists_key)
    def exists_key(interp, d, f):
        return quant(interp, d, f, False)

    @cfg.stub(api.forall_elems)
    def forall_elems(interp, xs, f):
        return quant(interp, xs, f, True)

    @cfg.stub(api.exists_elem)
    def exists_elem(interp, xs, f):
        return quant(interp, xs, f, False)

    @cfg.stub(api.py_eq)
    def py_eq(interp, a, b):
        return boolval(interp, interp.eq_term(a, b))

    @cfg.stub(api.same_json)
    def same_json(interp, a, b):
        return boolval(interp, interp.eq_term(a, b))

    @cfg.stub(api.is_none)
    def is_none(interp, v):
        from .ops import is_term
        return boolval(interp, is_term(interp, v, None))

    # ---- spec functions ------------------------------------------------------------------
    @cfg.stub(api.spec_b64u)
    def spec_b64u(interp, b):
        if is_plain(b):
            return S.ref_B64U(b)
        return interp.mk("vbytes", S.B64U_app(interp.ctx, interp.bytes_term(b)))

    @cfg.stub(api.spec_minbe)
    def spec_minbe(interp, n):
        if is_plain(n):
            return S.ref_MinBE(n)
        return interp.mk("vbytes", S.MinBE(interp.int_term(n)))

    @cfg.stub(api.spec_i2osp)
    def spec_i2osp(interp, n, length):
        if is_plain(n) and is_plain(length):
            return S.ref_I2OSP(n, length)
        return interp.mk("vbytes", S.I2OSP(interp.int_term(n), interp.int_term(length)))

    @cfg.stub(api.spec_os2ip)
    def spec_os2ip(interp, b):
        if is_plain(b):
            return S.ref_OS2IP(b)
        return interp.mk("vint", S.OS2IP(interp.bytes_term(b)))

    @cfg.stub(api.spec_pow256)
    def spec_pow256(interp, k):
        if is_plain(k):
            return 256 ** k if k >= 0 else 0
        return interp.mk("vint", S.pow256(interp.ctx, interp.int_term(k)))

    @cfg.stub(api.in_b64u_alphabet)
    def in_b64u_alphabet(interp, b):
        if is_plain(b):
            return api.in_b64u_alphabet(b)
        from .strings import flatten_concat
        bt = simp(interp.bytes_term(b))
        parts = flatten_concat(bt)
        if all(S.is_b64u_app(p_) for p_ in parts):
            for p_ in parts:
                S.B64U_app(interp.ctx, p_.arg(0))      # (re-)instantiate the alphabet axiom at this term
            return True
        return boolval(interp, z3.InRe(bt, S.B64U_RE))

    @cfg.stub(api.only_b64_input_chars)
    def only_b64_input_chars(interp, b):
        if is_plain(b):
            return api.only_b64_input_chars(b)
        return boolval(interp, z3.InRe(interp.bytes_term(b), z3.Star(S.B64_INPUT_CHARS)))

    @cfg.stub(api.spec_jsonc)
    def spec_jsonc(interp, v):
        import json as _json
        tv = simp(interp.term_of(v))
        try:
            from .core import lower
            return _json.dumps(lower(tv), ensure_ascii=True, separators=(",", ":"))
        except Exception:
            pass
        t = S.JSONc(tv)
        interp.ctx.axiom(z3.InRe(t, S.ASCII_RE), "json.dumps(ensure_ascii=True) is ASCII")
        interp.ctx.axiom(z3.And(S.JSONOk(t), S.JSONParse(t) == tv), "json.loads(json.dumps(v)) = v on the JSON data model")
        interp.ctx.ghost.setdefault("JSON_terms", []).append((t, tv, True))
        return interp.mk("vstr", t)

    @cfg.stub(api.writes_of)
    def writes_of(interp, out):
        return HList(items=[w for w in out.attrs.get("writes", [])])

    @cfg.stub(api.snapshot)
    def snapshot(interp, obj):
        if isinstance(obj, (HDict, HList)):
            return SVal(interp.term_of(obj))
        if isinstance(obj, SVal) or is_plain(obj):
            return obj
        raise Unsupported("snapshot of %r" % (type(obj),))

    @cfg.stub(api.unchanged)
    def unchanged(interp, obj, snap):
        return boolval(interp, interp.eq_term(obj, snap))

    @cfg.stub(api.truthy)
    def truthy(interp, v):
        return boolval(interp, interp.truth_term(v))

    @cfg.stub(api.opaque)
    def opaque(interp, fn, *args):
        from . import contracts
        live = getattr(fn, "live", fn)
        return contracts.spec_apply(interp, live, list(args))

    @cfg.stub(api.specfn)
    def specfn(interp, f):
        return f

    @cfg.stub(api.all_of)
    def all_of(interp, *conds):
        parts = [as_bool_term(interp, c) for c in conds]
        return boolval(interp, simp(z3.And(*parts)) if parts else True)

    @cfg.stub(api.any_of)
    def any_of(interp, *conds):
        parts = [as_bool_term(interp, c) for c in conds]
        return boolval(interp, simp(z3.Or(*parts)) if parts else False)

    @cfg.stub(api.is_list_of_str)
    def is_list_of_str(interp, v):
        if is_plain(v):
            return False
        if isinstance(v, HList) and v.mode == "c":
            return boolval(interp, simp(z3.And(*[as_bool_term(interp, boolval(interp, interp.is_tag_term(x, ("vstr",)))) for x in v.items])) if v.items else True)
        if isinstance(v, HList):
            t = interp.term_of(v)
        elif isinstance(v, SVal):
            t = v.t
        else:
            return False
        from .core import Nth
        from .loops import nth_bridge
        seq = A["l"](t)
        nth_bridge(interp.ctx, seq)
        i = z3.Const(B.fresh_bv("i"), IntSort)
        return boolval(interp, z3.And(is_tag(t, "vlist"),
                                      forall([i], z3.Implies(z3.And(i >= 0, i < z3.Length(seq)), is_tag(Nth(seq, i), "vstr")),
                                                patterns=[Nth(seq, i)])))

    @cfg.stub(api.is_url_str)
    def is_url_str(interp, v):
        if is_plain(v):
            return api.is_url_str(v)
        if not isinstance(v, SVal):
            return False
        s = A["s"](v.t)
        return boolval(interp, z3.And(is_tag(v.t, "vstr"), z3.Or(z3.PrefixOf(z3.StringVal("http://"), s), z3.PrefixOf(z3.StringVal("https://"), s))))

    @cfg.stub(api.is_strict_int)
    def is_strict_int(interp, v):
        if is_plain(v):
            return api.is_strict_int(v)
        if not isinstance(v, SVal):
            return False
        return boolval(interp, is_tag(v.t, "vint"))

    @cfg.stub(api.spec_hmac)
    def spec_hmac(interp, hname, key, msg):
        from .trusted_crypto import HMAC, DIGEST_SIZE
        if is_plain(key) and is_plain(msg):
            return api.spec_hmac(hname, key, msg)
        t = HMAC(z3.StringVal(hname), interp.bytes_term(key), interp.bytes_term(msg))
        interp.ctx.axiom(z3.Length(t) == DIGEST_SIZE[hname], "HMAC output has the digest size of its hash")
        return interp.mk("vbytes", t)

    @cfg.stub(api.spec_json_ok)
    def spec_json_ok(interp, b):
        if is_plain(b):
            return api.spec_json_ok(b)
        return boolval(interp, S.JSONOk(interp.text_term(b)))

    @cfg.stub(api.spec_json_parse)
    def spec_json_parse(interp, b):
        if is_plain(b):
            return interp.wrap_live(api.spec_json_parse(b))
        t = interp.text_term(b)
        r = S.JSONParse(t)
        interp.ctx.axiom(z3.Implies(S.JSONOk(t), z3.And(S.IsJSONValue(r), z3.Not(z3.Or(is_tag(r, "vabsent"), is_tag(r, "vbytes"), is_tag(r, "vobj"))))),
                         "json.loads yields a value of the JSON data model")
        return interp.from_term(r)

    @cfg.stub(api.spec_utf8)
    def spec_utf8(interp, s_):
        if is_plain(s_):
            return s_.encode("utf-8")
        return interp.mk("vbytes", S.utf8_encode(interp.ctx, interp.str_term(s_)))

    @cfg.stub(api.mk_datetime)
    def mk_datetime(interp, wall, offset=None):
        return Foreign("datetime", wall=interp.int_term(wall), off=None if offset is None else interp.int_term(offset))

    @cfg.stub(api.make_key)
    def make_key(interp, kind, name, private=True, curve=None, params=None, bits=2048):
        from . import trusted_crypto as TC
        from joserfc.jwk import RSAKey, ECKey, OKPKey
        sk = z3.Int("key!" + name)
        if kind == "rsa":
            b = bits if isinstance(bits, int) else interp.int_term(bits)
            bt = z3.IntVal(b) if isinstance(b, int) else b
            raw = TC.mk_key("rsa_priv", sk, bits=bt) if private else TC.mk_key("rsa_pub", TC.Pub(sk), bits=bt)
            cls = RSAKey
        elif kind == "ec":
            raw = TC.mk_key("ec_priv", sk, curve=curve) if private else TC.mk_key("ec_pub", TC.Pub(sk), curve=curve)
            cls = ECKey
        elif kind == "okp":
            raw = TC.mk_key(curve + "_priv", sk) if private else TC.mk_key(curve + "_pub", TC.Pub(sk))
            cls = OKPKey
        else:
            raise Unsupported("make_key(%r)" % kind)
        return interp.instantiate(cls, [raw, raw, params], {})

    def _pub_ident(interp, key):
        from . import trusted_crypto as TC
        raw = interp.get_attr(key, "_raw_value")
        if isinstance(raw, Foreign):
            return raw.f["ident"] if raw.kind.endswith("_pub") else TC.Pub(raw.f["ident"]), raw
        return None, raw

    @cfg.stub(api.spec_verify)
    def spec_verify(interp, alg, key, msg, sig):
        from . import trusted_crypto as TC
        from .reference import SIG_SPEC
        fam, hn, extra = SIG_SPEC[alg]
        mt, st = interp.bytes_term(msg), interp.bytes_term(sig)
        if fam == "none":
            return False
        ident, raw = _pub_ident(interp, key)
        if fam == "hmac":
            t = TC.HMAC(z3.StringVal(hn), interp.bytes_term(raw), mt)
            return boolval(interp, st == t)
        if fam == "rsa-pkcs1":
            return boolval(interp, TC.SigValid(z3.StringVal("RSA/PKCS1v15/" + hn), ident, mt, st))
        if fam == "rsa-pss":
            return boolval(interp, TC.SigValid(z3.StringVal("RSA/PSS(mgf1=%s,salt=%d)/%s" % (hn, extra, hn)), ident, mt, st))
        if fam == "ecdsa":
            L = extra[1]
            from .strings import flatten_concat
            parts = flatten_concat(simp(st))
            if len(parts) == 2 and interp.ctx.entails(z3.And(z3.Length(parts[0]) == L, z3.Length(parts[1]) == L)):
                r, s_ = S.OS2IP(parts[0]), S.OS2IP(parts[1])      # R || S, each of the curve's fixed length
            else:
                r = S.OS2IP(z3.SubString(st, 0, L))
                s_ = S.OS2IP(z3.SubString(st, L, z3.Length(st) - L))
            return boolval(interp, z3.And(z3.Length(st) == 2 * L, TC.ECDSAValid(z3.StringVal(hn), ident, mt, r, s_)))
        if fam == "eddsa":
            nm = raw.kind.rsplit("_", 1)[0]
            return boolval(interp, TC.SigValid(z3.StringVal("EdDSA/" + nm), ident, mt, st))
        raise Unsupported("spec_verify(%s)" % alg)

    @cfg.stub(api.known)
    def known(interp, fid):
        return fid in api.OPEN_FINDINGS

    @cfg.stub(api.urlsafe_text)
    def urlsafe_text(interp, b):
        if is_plain(b):
            return api.urlsafe_text(b)
        t = interp.text_term(b)
        cls = z3.Union(z3.Range("a", "z"), z3.Range("A", "Z"), z3.Range("0", "9"), z3.Re("-"), z3.Re("_"), z3.Re("~"))
        return boolval(interp, z3.InRe(t, z3.Plus(cls)))

    @cfg.stub(api.py_urlsafe_match)
    def py_urlsafe_match(interp, b):
        if is_plain(b):
            return api.py_urlsafe_match(b)
        t = interp.text_term(b)
        cls = z3.Union(z3.Range("a", "z"), z3.Range("A", "Z"), z3.Range("0", "9"), z3.Re("-"), z3.Re("_"), z3.Re("~"))
        return boolval(interp, z3.InRe(t, z3.Concat(z3.Plus(cls), z3.Option(z3.Re("\n")))))

    @cfg.stub(api.ascii_only)
    def ascii_only(interp, b):
        if is_plain(b):
            return api.ascii_only(b)
        return boolval(interp, z3.InRe(interp.text_term(b), S.ASCII_RE))

    @cfg.stub(api.shared_writes)
    def shared_writes(interp, out, call_relative=False):
        res = []
        mark = out.attrs.get("mark", 0)
        own = out.attrs.get("own_args", [])
        for (target, what, value, pre, stack) in out.attrs.get("writes", []):
            if call_relative and not pre and getattr(target, "oid", mark) < mark and not any(target is a for a in own):
                pre = True
            if not pre:
                continue
            if isinstance(target, (HDict, HList, HSet)) and target.label and str(target.label).startswith("arg:"):
                continue
            desc = "%s %s @ %s" % (type(target).__name__ if not isinstance(target, HObj) else target.cls.__name__, what, "/".join(stack[-2:]))
            lazy = isinstance(what, tuple) and len(what) > 2 and what[2] is True
            res.append((desc, lazy))
        return HList(items=[d for d, lz in res if not lz])

    @cfg.stub(api.spec_gcm_ok)
    def spec_gcm_ok(interp, key, iv, aad, ct, tag):
        from . import trusted_crypto as TC
        kt, it, at, ct_, tt = [interp.bytes_term(x) for x in (key, iv, aad, ct, tag)]
        return boolval(interp, z3.And(z3.Length(tt) == 16, TC.GCMOk(kt, it, at, ct_, tt)))

    @cfg.stub(api.spec_gcm_dec)
    def spec_gcm_dec(interp, key, iv, aad, ct, tag):
        from . import trusted_crypto as TC
        kt, it, at, ct_ = [interp.bytes_term(x) for x in (key, iv, aad, ct)]
        return interp.mk("vbytes", TC.GCMDec(kt, it, at, ct_))

    @cfg.stub(api.spec_unwrap_ok)
    def spec_unwrap_ok(interp, kek, ek):
        from . import trusted_crypto as TC
        kt, et = interp.bytes_term(kek), interp.bytes_term(ek)
        return boolval(interp, z3.And(z3.Length(et) >= 24, z3.Length(et) % 8 == 0, TC.UnwrapOk(kt, et)))

    @cfg.stub(api.spec_unwrap)
    def spec_unwrap(interp, kek, ek):
        from . import trusted_crypto as TC
        return interp.mk("vbytes", TC.Unwrap(interp.bytes_term(kek), interp.bytes_term(ek)))

    @cfg.stub(api.spec_cbc_hs_tag)
    def spec_cbc_hs_tag(interp, hname, mac_key, aad, iv, ct, n):
        from . import trusted_crypto as TC
        at = interp.bytes_term(aad)
        al = S.I2OSP(8 * z3.Length(at), z3.IntVal(8))
        msg = z3.Concat(at, interp.bytes_term(iv), interp.bytes_term(ct), al)
        d = TC.HMAC(z3.StringVal(hname), interp.bytes_term(mac_key), msg)
        return interp.mk("vbytes", z3.SubString(d, 0, n))

    @cfg.stub(api.is_native)
    def is_native(interp):
        return False

    @cfg.stub(api.random_draws)
    def random_draws(interp, out):
        res = []
        for ev in interp.ctx.events:
            if ev[0] == "draw":
                res.append((ev[3], interp.from_term(mk_int(ev[2])), ev[1]))
            elif ev[0] == "keygen":
                res.append((ev[2], None, ev[1]))
        return HList(items=res)

    @cfg.stub(api.is_fresh_draw)
    def is_fresh_draw(interp, value, n):
        from . import trusted_crypto as TC
        if not isinstance(value, SVal):
            return False
        t = simp(A["y"](value.t)) if head_tag(value.t) == "vbytes" else None
        if t is None or not (z3.is_app(t) and t.decl().eq(TC.Draw)):
            return False
        nt = interp.int_term(n) if not isinstance(n, int) else z3.IntVal(n)
        return boolval(interp, t.arg(1) == nt)

    @cfg.stub(api.spec_deflate_raw)
    def spec_deflate_raw(interp, b):
        from . import trusted_crypto as TC
        if is_plain(b):
            return api.spec_deflate_raw(b)
        return interp.mk("vbytes", TC.Deflate(interp.bytes_term(b)))

    @cfg.stub(api.crypto_events)
    def crypto_events(interp, out, kind):
        res = []
        for ev in interp.ctx.events:
            if ev[0] != kind:
                continue
            items = []
            for x in ev[1:]:
                if isinstance(x, z3.ExprRef):
                    if x.sort() == StringSort:
                        items.append(interp.from_term(mk_bytes(x)))
                    elif x.sort() == IntSort:
                        items.append(interp.from_term(mk_int(x)))
                    else:
                        items.append(SVal(x) if x.sort() == PyVal else x)
                else:
                    items.append(x)
            res.append(tuple(items))
        return HList(items=res)

    @cfg.stub(api.spec_hash)
    def spec_hash(interp, name, data):
        from . import trusted_crypto as TC
        if is_plain(data):
            return api.spec_hash(name, data)
        return interp.mk("vbytes", TC.Hash(z3.StringVal(name), interp.bytes_term(data)))

    @cfg.stub(api.spec_b64u_ok_text)
    def spec_b64u_ok_text(interp, s_):
        if is_plain(s_):
            return api.spec_b64u_ok_text(s_)
        if not isinstance(s_, SVal):
            return False
        t = S.utf8_encode(interp.ctx, A["s"](s_.t))
        padded = z3.Concat(t, S.rep(interp.ctx, z3.StringVal("="), (-z3.Length(t)) % 4))
        return boolval(interp, z3.And(is_tag(s_.t, "vstr"), z3.Not(z3.Contains(t, z3.StringVal("+"))), z3.Not(z3.Contains(t, z3.StringVal("/"))), S.PyB64Ok(padded)))

    @cfg.stub(api.spec_b64u_decode)
    def spec_b64u_decode(interp, text):
        if is_plain(text):
            return api.spec_b64u_decode(text)
        t = simp(interp.text_term(text))
        if S.is_b64u_app(t):
            return interp.mk("vbytes", t.arg(0))
        padded = z3.Concat(t, S.rep(interp.ctx, z3.StringVal("="), (-z3.Length(t)) % 4))
        return interp.mk("vbytes", S.PyB64Dec(padded))
