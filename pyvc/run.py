"""pyvc.run -- exploration driver: runs a harness over all paths, discharges obligations, extracts
counter-models, replays them natively on the real code."""
from __future__ import annotations
import json
import os
import subprocess
import sys
import tempfile
import time
import traceback
import warnings

from .core import (z3, PyVal, A, C, VABSENT, lower, simp, head_tag, NotConcrete, reset_fresh, str_value, TAGS)
from .values import Ctx, Unsupported, PathKilled, PyRaise, SVal, HObj, HDict, HList
from .interp import Interp, Config
from . import api


MERGE_CALLS = [
    "joserfc.rfc7515.registry.JWSRegistry.check_header",
    "joserfc.rfc7797.registry.JWSRegistry.check_header",
    "joserfc.rfc7516.registry.JWERegistry.check_header",
    "joserfc.rfc7517.models.BaseKey.check_use",
    "joserfc.rfc7517.models.BaseKey.check_alg",
    "joserfc.rfc7517.models.BaseKey.check_key_op",
    "joserfc.rfc7515.model.JWSAlgModel.check_key_type",
    "joserfc.rfc7516.models.KeyManagement.check_key_type",
    "joserfc.rfc7517.models.BaseKey.validate_dict_key",
]


def default_config():
    cfg = Config()
    cfg.interp_prefixes = ("joserfc", "props", "contracts", "pyvc.api")
    from . import trusted, harness
    trusted.install(cfg)
    harness.install(cfg)
    # pure validators whose internal paths are merged at the call (exact: one continuation per outcome class)
    cfg.merge_calls = set(MERGE_CALLS)
    try:
        from . import trusted_crypto
        trusted_crypto.install(cfg)
    except ImportError:
        pass
    return cfg


# ---------------------------------------------------------------------------------------------
# model -> python

def _array_pairs(model, arr):
    """(pairs, default) of an array value in a model."""
    ev = model.eval(arr, model_completion=True)
    pairs = []
    cur = ev
    for _ in range(10000):
        if z3.is_app(cur) and cur.decl().kind() == z3.Z3_OP_STORE:
            pairs.append((cur.arg(1), cur.arg(2)))
            cur = cur.arg(0)
            continue
        if z3.is_app(cur) and cur.decl().kind() == z3.Z3_OP_CONST_ARRAY:
            return list(reversed(pairs)), cur.arg(0)
        if z3.is_app(cur) and cur.decl().kind() == z3.Z3_OP_AS_ARRAY:
            f = cur.decl().params()[0] if cur.decl().params() else None
            fi = model[f] if f is not None else None
            if fi is not None:
                out = []
                for i in range(fi.num_entries()):
                    e = fi.entry(i)
                    out.append((e.arg_value(0), e.value()))
                return out + list(reversed(pairs)), fi.else_value()
        break
    return list(reversed(pairs)), None


_CANDIDATE_KEYS = []


def _dict_from_model(model, arr, depth=0):
    """Python dict of an array-valued term in a model: explicit entries of the model value plus probing
    of the candidate keys (string literals of the path condition)."""
    pairs, default = _array_pairs(model, arr)
    keys = []
    for k, _v in pairs:
        if z3.is_string_value(k):
            keys.append(str_value(k))
    for k in _CANDIDATE_KEYS:
        if k not in keys:
            keys.append(k)
    out = {}
    for k in keys:
        v = model.eval(z3.Select(arr, z3.StringVal(k)), model_completion=True)
        if head_tag(v) in (None, "vabsent"):
            continue
        out[k] = _val_to_py(model, v, depth + 1)
    return out


def collect_string_literals(formulas, limit=400):
    seen = set()
    out = []
    stack = list(formulas)
    visited = set()
    while stack and len(out) < limit:
        t = stack.pop()
        i = t.get_id()
        if i in visited:
            continue
        visited.add(i)
        if z3.is_string_value(t):
            s = str_value(t)
            if s not in seen:
                seen.add(s)
                out.append(s)
            continue
        if z3.is_quantifier(t):
            stack.append(t.body())
            continue
        if z3.is_app(t):
            for j in range(t.num_args()):
                stack.append(t.arg(j))
    return out


def term_to_py(model, t, depth=0):
    """Model value of a PyVal term as a python value (best effort; dicts keep only explicit keys)."""
    ev = model.eval(t, model_completion=True)
    return _val_to_py(model, ev, depth)


def _val_to_py(model, ev, depth=0):
    if depth > 6:
        return None
    tag = head_tag(ev)
    if tag is None:
        return None
    if tag in ("vnone", "vabsent"):
        return None
    a = ev.arg(0) if ev.num_args() else None
    if tag == "vbool":
        return z3.is_true(a)
    if tag == "vint":
        return a.as_long() if z3.is_int_value(a) else 0
    if tag == "vfloat":
        if z3.is_rational_value(a):
            return a.numerator_as_long() / a.denominator_as_long()
        return 0.0
    if tag == "vstr":
        return str_value(a) if z3.is_string_value(a) else ""
    if tag == "vbytes":
        s = str_value(a) if z3.is_string_value(a) else ""
        return bytes(ord(c) & 0xFF for c in s)
    if tag == "vlist":
        try:
            from .core import _seq_items
            return [_val_to_py(model, x, depth + 1) for x in _seq_items(a)]
        except NotConcrete:
            return []
    if tag == "vdict":
        from .core import DArr
        return _dict_from_model(model, DArr(a), depth)
    if tag == "vobj":
        return None
    return None


def _freeze(v):
    """python value -> JSON transportable."""
    if isinstance(v, bytes):
        return {"__bytes__": v.hex()}
    if isinstance(v, float):
        return {"__float__": repr(v)}
    if isinstance(v, dict):
        return {str(k): _freeze(x) for k, x in v.items()}
    if isinstance(v, (list, tuple)):
        return [_freeze(x) for x in v]
    return v


def extract_inputs(model, inputs, pc=()):
    out = {}
    global _CANDIDATE_KEYS
    _CANDIDATE_KEYS = collect_string_literals(list(pc)) if pc else []
    for name, rec in inputs.items():
        if rec[0] == "str":
            try:
                ev = model.eval(rec[1], model_completion=True)
                if z3.is_string_value(ev) and str_value(ev) not in _CANDIDATE_KEYS:
                    _CANDIDATE_KEYS.append(str_value(ev))
            except Exception:
                pass
    for name, rec in inputs.items():
        kind = rec[0]
        try:
            if kind in ("int", "choice"):
                ev = model.eval(rec[1], model_completion=True)
                out[name] = ev.as_long()
            elif kind == "bool":
                out[name] = z3.is_true(model.eval(rec[1], model_completion=True))
            elif kind == "str":
                ev = model.eval(rec[1], model_completion=True)
                out[name] = str_value(ev) if z3.is_string_value(ev) else ""
            elif kind == "bytes":
                ev = model.eval(rec[1], model_completion=True)
                s = str_value(ev) if z3.is_string_value(ev) else ""
                out[name] = _freeze(bytes(ord(c) & 0xFF for c in s))
            elif kind == "json":
                out[name] = _freeze(term_to_py(model, rec[1]))
            elif kind == "dict":
                out[name] = _freeze(_dict_from_model(model, rec[1]))
            elif kind == "list":
                ev = model.eval(rec[1], model_completion=True)
                try:
                    from .core import _seq_items
                    out[name] = _freeze([_val_to_py(model, x) for x in _seq_items(ev)])
                except NotConcrete:
                    out[name] = []
        except Exception as e:  # noqa
            out[name] = None
    return out


# ---------------------------------------------------------------------------------------------

class Obligation:
    def __init__(self, harness, label, path):
        self.harness = harness
        self.label = label
        self.path = path
        self.status = None     # proved | refuted | unknown
        self.solver = None
        self.time_s = 0.0
        self.inputs = None
        self.goal = None
        self.pc_size = 0
        self.smt2 = None

    def to_json(self):
        return {"harness": self.harness, "label": self.label, "path": self.path, "status": self.status,
                "solver": self.solver, "time_s": round(self.time_s, 4), "pc_size": self.pc_size,
                "goal": self.goal, "inputs": self.inputs}


CVC5 = "/usr/bin/cvc5"


def cvc5_check(smt2_text, timeout_s):
    """Run the cvc5 CLI on an SMT-LIB script; returns 'sat' | 'unsat' | 'unknown'."""
    if not os.path.exists(CVC5):
        return "unknown"
    with tempfile.NamedTemporaryFile("w", suffix=".smt2", delete=False, dir=os.environ.get("VERIF_SCRATCH", "/var/tmp")) as f:
        f.write("(set-logic ALL)\n" + smt2_text)
        path = f.name
    try:
        p = subprocess.run([CVC5, "--strings-exp", "--dt-nested-rec", "--tlimit=%d" % int(timeout_s * 1000), path],
                           capture_output=True, text=True, timeout=timeout_s + 5)
        out = p.stdout.strip().splitlines()
        for line in out:
            if line.strip() in ("sat", "unsat", "unknown"):
                return line.strip()
        return "unknown"
    except Exception:
        return "unknown"
    finally:
        try:
            os.unlink(path)
        except OSError:
            pass


class HarnessResult:
    def __init__(self, name):
        self.name = name
        self.obligations = []
        self.paths = 0
        self.killed = 0
        self.unsupported = []     # messages
        self.errors = []          # checker errors (tracebacks)
        self.covers = set()
        self.stats = {}
        self.axioms = set()
        self.wall_s = 0.0
        self.replays = []
        self.functions = set()
        self.infeasible_completed = 0
        self.witnessed_paths = 0
        self.pools = {}
        self.input_kinds = {}

    def to_json(self):
        return {"name": self.name, "paths": self.paths, "killed": self.killed, "unsupported": self.unsupported,
                "errors": self.errors, "covers": sorted(self.covers), "stats": self.stats,
                "axioms": sorted(self.axioms), "wall_s": round(self.wall_s, 3),
                "obligations": [o.to_json() for o in self.obligations], "replays": self.replays,
                "functions": sorted(self.functions),
                "witnessed_paths": self.witnessed_paths, "infeasible_completed": self.infeasible_completed}


def run_harness(fn, name=None, cfg=None, solver_timeout_ms=10000, max_paths=20000, use_cvc5=True, verbose=False):
    """Explore every path of harness `fn` symbolically; returns HarnessResult."""
    name = name or fn.__name__
    cfg = cfg or default_config()
    from . import contracts as _contracts
    cfg.contracts = {}
    for q in getattr(fn, "use_contracts", ()):
        if q not in _contracts.REGISTRY:
            raise KeyError("unknown contract %s" % q)
        cfg.contracts[q] = _contracts.REGISTRY[q]
    res = HarnessResult(name)
    t00 = time.time()
    ctx = Ctx(timeout_ms=int(os.environ.get('PYVC_FEAS_MS', '10')))
    ctx.max_paths = max_paths

    label_bad = {}

    def on_check(label, goal):
        ob = Obligation(name, label, res.paths)
        ob.goal = (str(goal)[:300])
        if z3.is_false(goal) and ctx.ghost.get("last_exc"):
            ob.goal = "False  [escaping exception: %s]" % ctx.ghost.get("last_exc")
        ob.pc_size = len(ctx.pc)
        t0 = time.time()
        bad = label_bad.get(label, 0)
        if z3.is_true(goal):
            ob.status, ob.solver = "proved", "simplifier"
        elif os.environ.get("PYVC_NOSOLVE"):
            ob.status, ob.solver = "unknown", "not attempted (PYVC_NOSOLVE exploration mode)"
        elif bad >= 3:
            # this obligation already failed on three other paths: do not spend more solver time on it
            ob.status, ob.solver = "unknown", "skipped (same obligation already refuted/undecided on 3 paths)"
        else:
            s = ctx.solver
            s.set("timeout", solver_timeout_ms)
            s.push()
            for lz in ctx.lazy:
                s.add(lz)
            s.add(z3.Not(goal))
            r = s.check()
            if r == z3.unsat:
                ob.status, ob.solver = "proved", "z3"
            elif r == z3.sat:
                ob.status, ob.solver = "refuted", "z3"
                try:
                    ob.inputs = extract_inputs(s.model(), ctx.inputs, ctx.pc + [z3.Not(goal)])
                except Exception as e:  # noqa
                    ob.inputs = {"__error__": repr(e)}
            else:
                ob.status, ob.solver = "unknown", "z3:" + s.reason_unknown()
                if os.environ.get("PYVC_DUMP_UNKNOWN"):
                    try:
                        with open(os.path.join(os.environ["PYVC_DUMP_UNKNOWN"], "%s-%d-%d.smt2" % (name, res.paths, len(res.obligations))), "w") as fdump:
                            fdump.write(s.to_smt2())
                    except Exception:
                        pass
                # portfolio of fresh solver configurations on the same formulas (the incremental context's state
                # depends on the non-deterministic pruning history; fresh contexts are reproducible, and the
                # configurations differ in which quantified obligations they decide)
                portfolio = [("z3-default", z3.Solver, False), ("z3-default-mbqi", z3.Solver, True),
                             ("z3-simple-mbqi", z3.SimpleSolver, True), ("z3-all", lambda: z3.SolverFor("ALL"), False)]
                for pname, mk, mbqi in portfolio:
                    try:
                        s2 = mk()
                        s2.set("timeout", min(solver_timeout_ms, 5000))
                        s2.set("smt.mbqi", mbqi)
                        for f in ctx.pc:
                            s2.add(f)
                        s2.add(z3.Not(goal))
                        r2 = s2.check()
                        if r2 == z3.unsat:
                            ob.status, ob.solver = "proved", pname
                            break
                        if r2 == z3.sat:
                            ob.status, ob.solver = "refuted", pname
                            try:
                                ob.inputs = extract_inputs(s2.model(), ctx.inputs, ctx.pc + [z3.Not(goal)])
                            except Exception as e:  # noqa
                                ob.inputs = {"__error__": repr(e)}
                            break
                    except Exception:
                        pass
                if ob.status == "unknown" and use_cvc5:
                    try:
                        txt = s.to_smt2()
                        r2 = cvc5_check(txt, solver_timeout_ms / 1000.0)
                        if r2 == "unsat":
                            ob.status, ob.solver = "proved", "cvc5"
                        elif r2 == "sat":
                            ob.status, ob.solver = "refuted", "cvc5"
                    except Exception:
                        pass
            s.pop()
            s.set("timeout", ctx.timeout_ms)
        ob.time_s = time.time() - t0
        if ob.status != "proved":
            label_bad[label] = label_bad.get(label, 0) + 1
            if label not in res.pools:
                try:
                    res.pools[label] = collect_string_literals(list(ctx.pc) + [goal], limit=80)
                    res.input_kinds[label] = {n: (r[0], (r[2] if r[0] == "choice" and len(r) > 2 else None)) for n, r in ctx.inputs.items()}
                except Exception:
                    pass
        res.obligations.append(ob)
        if verbose:
            pass
        if verbose:
            print("   [%s] %s path=%d %s %s %.3fs" % (name, label, ob.path, ob.status, ob.solver, ob.time_s))
        return ob.status

    while ctx.worklist:
        prefix = ctx.worklist.pop()
        if res.paths + res.killed > max_paths:
            res.unsupported.append("path budget exceeded (%d)" % max_paths)
            break
        ctx._reset_path(prefix)
        ctx.on_check = on_check
        reset_fresh()
        interp = Interp(ctx, cfg)
        try:
            interp.call(fn, [], {})
            # vacuity guard: the completed path must be satisfiable (or at least not refutable)
            ctx.solver.set("timeout", 250)
            fr = ctx.solver.check()
            if fr == z3.unsat:
                res.killed += 1
                res.infeasible_completed += 1
                n_here = sum(1 for o in res.obligations if o.path == res.paths)
                res.obligations = [o for o in res.obligations if o.path != res.paths]
            else:
                if fr == z3.sat:
                    res.witnessed_paths += 1
                res.paths += 1
        except PathKilled:
            res.killed += 1
        except PyRaise as pr:
            if _path_infeasible(ctx):
                res.killed += 1
                continue
            res.paths += 1
            res.errors.append("harness raised %s %r (trail %s)" % (getattr(pr.exc.cls, "__name__", "?"), pr.exc.attrs.get("args"), ctx.trail))
        except Unsupported as u:
            if _path_infeasible(ctx):
                res.killed += 1
                continue
            res.paths += 1
            msg = str(u)
            if msg not in res.unsupported:
                res.unsupported.append(msg)
        except RecursionError:
            res.errors.append("checker recursion limit")
        except Exception:
            res.errors.append(traceback.format_exc(limit=-14))
        res.covers.update(ctx.covers)
        if os.environ.get("PYVC_TRACE"):
            print("PATH done: trail=%s pc=%d checks=%d paths=%d killed=%d errs=%d unsup=%d" % (ctx.trail, len(ctx.pc), len(ctx.checks), res.paths, res.killed, len(res.errors), len(res.unsupported)), flush=True)
    res.axioms = set(ctx.axiom_log)
    res.stats = dict(ctx.stats)
    res.wall_s = time.time() - t00
    return res


def _path_infeasible(ctx):
    """A path the quick feasibility probes let through (unknown = feasible) may be contradictory; before an error on it
    is reported, its path condition gets a real solver budget.  unsat => no execution follows it."""
    try:
        ctx.solver.set("timeout", 3000)
        return ctx.solver.check() == z3.unsat
    except Exception:
        return False


def replay_native(fn, inputs):
    """Run the harness natively on concrete inputs. Returns dict(failed=[labels], checked=[...], error=...)"""
    api.NATIVE.inputs = dict(inputs or {})
    api.NATIVE.failures = []
    api.NATIVE.checked = []
    api.NATIVE.covered = []
    err = None
    with warnings.catch_warnings():
        warnings.simplefilter("ignore")
        try:
            fn()
        except api.AssumptionFailed:
            err = "assumption-not-met"
        except BaseException as e:  # noqa
            err = "harness raised %s: %s" % (type(e).__name__, e)
    return {"failed": list(api.NATIVE.failures), "checked": list(api.NATIVE.checked), "error": err}


# ---------------------------------------------------------------------------------------------
# native witness search (used only to *find* a concrete failing input for an obligation the prover could
# not discharge; the deciding step is the failed obligation, the witness is replayed on the real code)

def _gen_json(rnd, pool, depth=0):
    r = rnd.random()
    if depth > 2:
        r = r * 0.7
    if r < 0.25:
        return rnd.choice(pool) if pool else ""
    if r < 0.35:
        return rnd.choice([0, 1, -1, 2, 10, 2 ** 31, 2 ** 64, -2 ** 63])
    if r < 0.42:
        return rnd.choice([True, False])
    if r < 0.48:
        return None
    if r < 0.53:
        return rnd.choice([0.5, -1.5, 1e10])
    if r < 0.62:
        return ""
    if r < 0.82:
        return [_gen_json(rnd, pool, depth + 1) for _ in range(rnd.choice([0, 1, 1, 2, 3]))]
    return {rnd.choice(pool) if pool else "k": _gen_json(rnd, pool, depth + 1) for _ in range(rnd.choice([0, 1, 2]))}


def _gen_input(rnd, kind, extra, pool):
    if kind == "int":
        return rnd.choice([0, 1, -1, 2, 3, 5, 255, 256, 65535, 65536, 2 ** 32, 2 ** 64, -2 ** 31, rnd.randint(-1000, 1000), rnd.randint(0, 2 ** 40)])
    if kind == "bool":
        return rnd.choice([True, False])
    if kind == "choice":
        return rnd.randrange(extra) if extra else 0
    if kind == "str":
        return rnd.choice(pool + ["", "a", "\n", "x.y"]) if rnd.random() < 0.8 else "".join(rnd.choice("ab.-_=+/ \n") for _ in range(rnd.randint(0, 6)))
    if kind == "bytes":
        if rnd.random() < 0.5 and pool:
            return _freeze(rnd.choice(pool).encode("utf-8", "ignore"))
        return _freeze(bytes(rnd.choice([0, 1, 43, 45, 46, 47, 61, 65, 97, 120, 128, 255]) for _ in range(rnd.randint(0, 7))))
    if kind == "json":
        return _freeze(_gen_json(rnd, pool))
    if kind == "dict":
        d = {}
        for _ in range(rnd.choice([0, 1, 2, 3, 4, 6])):
            d[rnd.choice(pool) if pool and rnd.random() < 0.9 else "zz"] = _gen_json(rnd, pool)
        return _freeze(d)
    if kind == "list":
        return _freeze([_gen_json(rnd, pool) for _ in range(rnd.choice([0, 1, 2, 3]))])
    return None


def _mutate(rnd, v, pool):
    """Small structural mutation of a (frozen) JSON-ish input value."""
    if isinstance(v, dict) and "__bytes__" not in v and "__float__" not in v:
        d = dict(v)
        r = rnd.random()
        keys = list(d.keys())
        if r < 0.3 and keys:
            d.pop(rnd.choice(keys))
        elif r < 0.65:
            d[rnd.choice(pool) if pool else "zz"] = _freeze(_gen_json(rnd, pool))
        elif keys:
            k = rnd.choice(keys)
            d[k] = _mutate(rnd, d[k], pool) if rnd.random() < 0.5 else _freeze(_gen_json(rnd, pool))
        return d
    if isinstance(v, list):
        l = list(v)
        r = rnd.random()
        if r < 0.3 and l:
            l.pop(rnd.randrange(len(l)))
        elif r < 0.7:
            l.append(_freeze(_gen_json(rnd, pool)))
        elif l:
            i = rnd.randrange(len(l))
            l[i] = _mutate(rnd, l[i], pool)
        return l
    return _freeze(_gen_json(rnd, pool))


def search_native(fn, label, kinds, pool, seed=0, budget_s=8.0, max_trials=20000):
    import random as _random
    rnd = _random.Random(seed * 7919 + hash(label) % 1000)
    pool = [p for p in pool if len(p) < 40][:60]
    seeds = [dict((k, _freeze(v)) for k, v in sd.items()) for sd in getattr(fn, "seeds", [])]
    seed_fn = getattr(fn, "seed_fn", None)
    t0 = time.time()
    n = 0
    while n < max_trials and time.time() - t0 < budget_s:
        n += 1
        if seed_fn is not None and rnd.random() < 0.7:
            try:
                inputs = dict((k, _freeze(v)) for k, v in seed_fn(rnd).items())
            except Exception:
                inputs = {}
            for name, k in kinds.items():
                if name not in inputs:
                    inputs[name] = _gen_input(rnd, k[0], k[1], pool)
        elif seeds and rnd.random() < 0.85:
            inputs = dict(rnd.choice(seeds))
            for name, k in kinds.items():
                if name not in inputs:
                    inputs[name] = _gen_input(rnd, k[0], k[1], pool)
            for _ in range(rnd.choice([0, 0, 1, 1, 2, 3])):
                name = rnd.choice(list(inputs.keys()))
                k = kinds.get(name, ("json", None))
                if k[0] in ("dict", "list", "json"):
                    inputs[name] = _mutate(rnd, inputs[name], pool)
                else:
                    inputs[name] = _gen_input(rnd, k[0], k[1], pool)
        else:
            inputs = {name: _gen_input(rnd, k[0], k[1], pool) for name, k in kinds.items()}
        r = replay_native(fn, inputs)
        if label in r["failed"]:
            return inputs, n
    return None, n
