"""pyvc.run -- exploration driver: runs a harness over all paths, discharges obligations, extracts
counter-models, replays them natively on the real code."""
from __future__ import annotations
import json
import os
import subprocess
import sys
import tempfile
import time
import traceback
import warnings

from .core import (z3, PyVal, A, C, VABSENT, lower, simp, head_tag, NotConcrete, reset_fresh, str_value, TAGS)
from .values import Ctx, Unsupported, PathKilled, PyRaise, SVal, HObj, HDict, HList
from .interp import Interp, Config
from . import api


def default_config():
    cfg = Config()
    cfg.interp_prefixes = ("joserfc", "props", "contracts", "pyvc.api")
    from . import trusted, harness
    trusted.install(cfg)
    harness.install(cfg)
    try:
        from . import trusted_crypto
        trusted_crypto.install(cfg)
    except ImportError:
        pass
    return cfg


# ---------------------------------------------------------------------------------------------
# model -> python

def _array_pairs(model, arr):
    """(pairs, default) of an array value in a model."""
    ev = model.eval(arr, model_completion=True)
    pairs = []
    cur = ev
    for _ in range(10000):
        if z3.is_app(cur) and cur.decl().kind() == z3.Z3_OP_STORE:
            pairs.append((cur.arg(1), cur.arg(2)))
            cur = cur.arg(0)
            continue
        if z3.is_app(cur) and cur.decl().kind() == z3.Z3_OP_CONST_ARRAY:
            return list(reversed(pairs)), cur.arg(0)
        if z3.is_app(cur) and cur.decl().kind() == z3.Z3_OP_AS_ARRAY:
            f = cur.decl().params()[0] if cur.decl().params() else None
            fi = model[f] if f is not None else None
            if fi is not None:
                out = []
                for i in range(fi.num_entries()):
                    e = fi.entry(i)
                    out.append((e.arg_value(0), e.value()))
                return out + list(reversed(pairs)), fi.else_value()
        break
    return list(reversed(pairs)), None


def term_to_py(model, t, depth=0):
    """Model value of a PyVal term as a python value (best effort; dicts keep only explicit keys)."""
    ev = model.eval(t, model_completion=True)
    return _val_to_py(model, ev, depth)


def _val_to_py(model, ev, depth=0):
    if depth > 6:
        return None
    tag = head_tag(ev)
    if tag is None:
        return None
    if tag in ("vnone", "vabsent"):
        return None
    a = ev.arg(0) if ev.num_args() else None
    if tag == "vbool":
        return z3.is_true(a)
    if tag == "vint":
        return a.as_long() if z3.is_int_value(a) else 0
    if tag == "vfloat":
        if z3.is_rational_value(a):
            return a.numerator_as_long() / a.denominator_as_long()
        return 0.0
    if tag == "vstr":
        return str_value(a) if z3.is_string_value(a) else ""
    if tag == "vbytes":
        s = str_value(a) if z3.is_string_value(a) else ""
        return bytes(ord(c) & 0xFF for c in s)
    if tag == "vlist":
        try:
            from .core import _seq_items
            return [_val_to_py(model, x, depth + 1) for x in _seq_items(a)]
        except NotConcrete:
            return []
    if tag == "vdict":
        from .core import DArr
        pairs, default = _array_pairs(model, DArr(a))
        out = {}
        for k, v in pairs:
            if not z3.is_string_value(k):
                continue
            if head_tag(v) == "vabsent":
                out.pop(str_value(k), None)
            else:
                out[str_value(k)] = _val_to_py(model, v, depth + 1)
        return out
    if tag == "vobj":
        return None
    return None


def _freeze(v):
    """python value -> JSON transportable."""
    if isinstance(v, bytes):
        return {"__bytes__": v.hex()}
    if isinstance(v, float):
        return {"__float__": repr(v)}
    if isinstance(v, dict):
        return {str(k): _freeze(x) for k, x in v.items()}
    if isinstance(v, (list, tuple)):
        return [_freeze(x) for x in v]
    return v


def extract_inputs(model, inputs):
    out = {}
    for name, rec in inputs.items():
        kind = rec[0]
        try:
            if kind in ("int", "choice"):
                ev = model.eval(rec[1], model_completion=True)
                out[name] = ev.as_long()
            elif kind == "bool":
                out[name] = z3.is_true(model.eval(rec[1], model_completion=True))
            elif kind == "str":
                ev = model.eval(rec[1], model_completion=True)
                out[name] = str_value(ev) if z3.is_string_value(ev) else ""
            elif kind == "bytes":
                ev = model.eval(rec[1], model_completion=True)
                s = str_value(ev) if z3.is_string_value(ev) else ""
                out[name] = _freeze(bytes(ord(c) & 0xFF for c in s))
            elif kind == "json":
                out[name] = _freeze(term_to_py(model, rec[1]))
            elif kind == "dict":
                pairs, default = _array_pairs(model, rec[1])
                d = {}
                for k, v in pairs:
                    if not z3.is_string_value(k):
                        continue
                    if head_tag(v) == "vabsent":
                        d.pop(str_value(k), None)
                    else:
                        d[str_value(k)] = _val_to_py(model, v)
                out[name] = _freeze(d)
            elif kind == "list":
                ev = model.eval(rec[1], model_completion=True)
                try:
                    from .core import _seq_items
                    out[name] = _freeze([_val_to_py(model, x) for x in _seq_items(ev)])
                except NotConcrete:
                    out[name] = []
        except Exception as e:  # noqa
            out[name] = None
    return out


# ---------------------------------------------------------------------------------------------

class Obligation:
    def __init__(self, harness, label, path):
        self.harness = harness
        self.label = label
        self.path = path
        self.status = None     # proved | refuted | unknown
        self.solver = None
        self.time_s = 0.0
        self.inputs = None
        self.goal = None
        self.pc_size = 0
        self.smt2 = None

    def to_json(self):
        return {"harness": self.harness, "label": self.label, "path": self.path, "status": self.status,
                "solver": self.solver, "time_s": round(self.time_s, 4), "pc_size": self.pc_size,
                "goal": self.goal, "inputs": self.inputs}


CVC5 = "/usr/bin/cvc5"


def cvc5_check(smt2_text, timeout_s):
    """Run the cvc5 CLI on an SMT-LIB script; returns 'sat' | 'unsat' | 'unknown'."""
    if not os.path.exists(CVC5):
        return "unknown"
    with tempfile.NamedTemporaryFile("w", suffix=".smt2", delete=False, dir=os.environ.get("VERIF_SCRATCH", "/var/tmp")) as f:
        f.write("(set-logic ALL)\n" + smt2_text)
        path = f.name
    try:
        p = subprocess.run([CVC5, "--strings-exp", "--dt-nested-rec", "--tlimit=%d" % int(timeout_s * 1000), path],
                           capture_output=True, text=True, timeout=timeout_s + 5)
        out = p.stdout.strip().splitlines()
        for line in out:
            if line.strip() in ("sat", "unsat", "unknown"):
                return line.strip()
        return "unknown"
    except Exception:
        return "unknown"
    finally:
        try:
            os.unlink(path)
        except OSError:
            pass


class HarnessResult:
    def __init__(self, name):
        self.name = name
        self.obligations = []
        self.paths = 0
        self.killed = 0
        self.unsupported = []     # messages
        self.errors = []          # checker errors (tracebacks)
        self.covers = set()
        self.stats = {}
        self.axioms = set()
        self.wall_s = 0.0
        self.replays = []
        self.functions = set()
        self.infeasible_completed = 0
        self.witnessed_paths = 0

    def to_json(self):
        return {"name": self.name, "paths": self.paths, "killed": self.killed, "unsupported": self.unsupported,
                "errors": self.errors, "covers": sorted(self.covers), "stats": self.stats,
                "axioms": sorted(self.axioms), "wall_s": round(self.wall_s, 3),
                "obligations": [o.to_json() for o in self.obligations], "replays": self.replays,
                "functions": sorted(self.functions),
                "witnessed_paths": self.witnessed_paths, "infeasible_completed": self.infeasible_completed}


def run_harness(fn, name=None, cfg=None, solver_timeout_ms=10000, max_paths=20000, use_cvc5=True, verbose=False):
    """Explore every path of harness `fn` symbolically; returns HarnessResult."""
    name = name or fn.__name__
    cfg = cfg or default_config()
    from . import contracts as _contracts
    cfg.contracts = {}
    for q in getattr(fn, "use_contracts", ()):
        if q not in _contracts.REGISTRY:
            raise KeyError("unknown contract %s" % q)
        cfg.contracts[q] = _contracts.REGISTRY[q]
    res = HarnessResult(name)
    t00 = time.time()
    ctx = Ctx(timeout_ms=int(os.environ.get('PYVC_FEAS_MS', '20')))
    ctx.max_paths = max_paths

    def on_check(label, goal):
        ob = Obligation(name, label, res.paths)
        ob.goal = (str(goal)[:300])
        ob.pc_size = len(ctx.pc)
        t0 = time.time()
        if z3.is_true(goal):
            ob.status, ob.solver = "proved", "simplifier"
        else:
            s = ctx.solver
            s.set("timeout", solver_timeout_ms)
            s.push()
            s.add(z3.Not(goal))
            r = s.check()
            if r == z3.unsat:
                ob.status, ob.solver = "proved", "z3"
            elif r == z3.sat:
                ob.status, ob.solver = "refuted", "z3"
                try:
                    ob.inputs = extract_inputs(s.model(), ctx.inputs)
                except Exception as e:  # noqa
                    ob.inputs = {"__error__": repr(e)}
            else:
                ob.status, ob.solver = "unknown", "z3:" + s.reason_unknown()
                # second attempt: model-based quantifier instantiation (finds counter-models / proofs
                # the E-matching-only configuration cannot)
                try:
                    s2 = z3.SimpleSolver()
                    s2.set("timeout", solver_timeout_ms)
                    s2.set("smt.mbqi", True)
                    for f in ctx.pc:
                        s2.add(f)
                    s2.add(z3.Not(goal))
                    r2 = s2.check()
                    if r2 == z3.unsat:
                        ob.status, ob.solver = "proved", "z3-mbqi"
                    elif r2 == z3.sat:
                        ob.status, ob.solver = "refuted", "z3-mbqi"
                        try:
                            ob.inputs = extract_inputs(s2.model(), ctx.inputs)
                        except Exception as e:  # noqa
                            ob.inputs = {"__error__": repr(e)}
                except Exception:
                    pass
                if ob.status == "unknown" and use_cvc5:
                    try:
                        txt = s.to_smt2()
                        r2 = cvc5_check(txt, solver_timeout_ms / 1000.0)
                        if r2 == "unsat":
                            ob.status, ob.solver = "proved", "cvc5"
                        elif r2 == "sat":
                            ob.status, ob.solver = "refuted", "cvc5"
                    except Exception:
                        pass
            s.pop()
            s.set("timeout", ctx.timeout_ms)
        ob.time_s = time.time() - t0
        res.obligations.append(ob)
        if verbose:
            print("   [%s] %s path=%d %s %s %.3fs" % (name, label, ob.path, ob.status, ob.solver, ob.time_s))

    while ctx.worklist:
        prefix = ctx.worklist.pop()
        if res.paths + res.killed > max_paths:
            res.unsupported.append("path budget exceeded (%d)" % max_paths)
            break
        ctx._reset_path(prefix)
        ctx.on_check = on_check
        reset_fresh()
        interp = Interp(ctx, cfg)
        try:
            interp.call(fn, [], {})
            # vacuity guard: the completed path must be satisfiable (or at least not refutable)
            ctx.solver.set("timeout", 250)
            fr = ctx.solver.check()
            if fr == z3.unsat:
                res.killed += 1
                res.infeasible_completed += 1
                n_here = sum(1 for o in res.obligations if o.path == res.paths)
                res.obligations = [o for o in res.obligations if o.path != res.paths]
            else:
                if fr == z3.sat:
                    res.witnessed_paths += 1
                res.paths += 1
        except PathKilled:
            res.killed += 1
        except PyRaise as pr:
            res.paths += 1
            res.errors.append("harness raised %s %r (trail %s)" % (getattr(pr.exc.cls, "__name__", "?"), pr.exc.attrs.get("args"), ctx.trail))
        except Unsupported as u:
            res.paths += 1
            msg = str(u)
            if msg not in res.unsupported:
                res.unsupported.append(msg)
        except RecursionError:
            res.errors.append("checker recursion limit")
        except Exception:
            res.errors.append(traceback.format_exc(limit=12))
        res.covers.update(ctx.covers)
        if os.environ.get("PYVC_TRACE"):
            print("PATH done: trail=%s pc=%d checks=%d paths=%d killed=%d errs=%d unsup=%d" % (ctx.trail, len(ctx.pc), len(ctx.checks), res.paths, res.killed, len(res.errors), len(res.unsupported)), flush=True)
    res.axioms = set(ctx.axiom_log)
    res.stats = dict(ctx.stats)
    res.wall_s = time.time() - t00
    return res


def replay_native(fn, inputs):
    """Run the harness natively on concrete inputs. Returns dict(failed=[labels], checked=[...], error=...)"""
    api.NATIVE.inputs = dict(inputs or {})
    api.NATIVE.failures = []
    api.NATIVE.checked = []
    api.NATIVE.covered = []
    err = None
    with warnings.catch_warnings():
        warnings.simplefilter("ignore")
        try:
            fn()
        except api.AssumptionFailed:
            err = "assumption-not-met"
        except BaseException as e:  # noqa
            err = "harness raised %s: %s" % (type(e).__name__, e)
    return {"failed": list(api.NATIVE.failures), "checked": list(api.NATIVE.checked), "error": err}
