"""pyvc.builtins_impl -- builtins and builtin-type methods on interpreter values."""
from __future__ import annotations
from .core import tid, forall
import builtins
import types
from .core import (z3, PyVal, A, C, VABSENT, VNONE, StringSort, IntSort, BoolSort, SeqPV, EMPTY_VALS, lift, lower,
                   simp, head_tag, NotConcrete, mk_bool, mk_int, mk_float, mk_str, mk_bytes, mk_list,
                   mk_dict, mk_obj, is_tag, bytes_to_smt)
from .values import (Unsupported, PathKilled, PyRaise, SVal, HObj, HDict, HList, HSet, Foreign, Closure,
                     BoundMethod, BuiltinMethod, ForeignMethod, SuperProxy, DictView)
from .ops import is_plain, native_exc, boolval, concretize_int
from . import spec as S

ArrSB = z3.ArraySort(StringSort, BoolSort)


def fresh_bv(prefix):
    from .core import fresh_name
    return fresh_name(prefix + "!bv")

# ---------------------------------------------------------------------------------------------
# views of SVal containers


def as_hdict(interp, v):
    """dict-tagged SVal -> derived HDict view (value semantics: writes do not propagate)."""
    if isinstance(v, HDict):
        return v
    t = v.t
    vv, nn = interp.ctx.dict_view(t)
    d = HDict(vals=vv, n=nn)
    d.derived = True
    return d


def as_hlist(interp, v):
    if isinstance(v, HList):
        return v
    if isinstance(v, tuple):
        return HList(items=list(v))
    l = HList(seq=simp(A["l"](v.t)))
    l.derived = True
    return l


def container(interp, v):
    """Normalize a container-ish value: HDict / HList / HSet / tuple / str / bytes / SVal(text)."""
    if isinstance(v, SVal):
        tg = interp.tag(v)
        if tg == "vdict":
            interp.dict_wf(v.t)
            return as_hdict(interp, v)
        if tg == "vlist":
            return as_hlist(interp, v)
    return v


def key_term(interp, k):
    """String term of a dict key; raises TypeError (unhashable) / Unsupported (non-str keys)."""
    if isinstance(k, str):
        return z3.StringVal(k)
    if isinstance(k, SVal):
        tg = interp.tag(k)
        if tg == "vstr":
            return interp.str_term(k)
        if tg in ("vlist", "vdict"):
            interp.raise_(TypeError, "unhashable type")
        return None
    if isinstance(k, (HList, HDict, HSet)):
        interp.raise_(TypeError, "unhashable type")
    return None


def dict_to_sym(interp, d):
    if d.mode == "s":
        return
    vals = EMPTY_VALS
    for k, x in d.py.items():
        vals = z3.Store(vals, z3.StringVal(k), interp.term_of(x))
    d.vals = vals
    d.n = z3.IntVal(len(d.py))
    d.mode = "s"
    d.py = None


def dict_has_term(interp, d, k):
    """Bool term / bool: key k (python str or String term) in dict."""
    if d.mode == "c":
        if isinstance(k, str):
            return k in d.py
        if not d.py:
            return False
        return simp(z3.Or(*[k == z3.StringVal(x) for x in d.py]))
    kt = z3.StringVal(k) if isinstance(k, str) else k
    return present_term(interp, d, kt)


def present_term(interp, d, kt):
    """Bool term: key present; instantiates the size invariant (present key => n > 0)."""
    p = simp(z3.Select(d.vals, kt) != VABSENT)
    if not z3.is_false(p):
        key = ("present", tid(p), tid(d.n))
        if key not in interp.ctx.ghost:
            interp.ctx.ghost[key] = True
            interp.ctx.axiom(z3.Implies(p, d.n > 0), "datatype-invariant: a present key makes the dict size positive")
    return p


def dict_get(interp, d, k, default=None, missing_raises=False):
    """d[k] / d.get(k, default) for a str-typed key (python str or String term)."""
    if d.mode == "c":
        if isinstance(k, str):
            if k in d.py:
                return d.py[k]
            if missing_raises:
                interp.raise_(KeyError, k)
            return default
        # symbolic key on a concrete-key dict: case split
        keys = list(d.py.keys())
        conds = [k == z3.StringVal(x) for x in keys]
        conds.append(z3.And(*[k != z3.StringVal(x) for x in keys]) if keys else True)
        i = interp.ctx.choose(conds)
        if i < len(keys):
            return d.py[keys[i]]
        if missing_raises:
            interp.raise_(KeyError, "key")
        return default
    kt = z3.StringVal(k) if isinstance(k, str) else k
    sel = simp(z3.Select(d.vals, kt))
    present = present_term(interp, d, kt)
    if not missing_raises and not z3.is_true(present) and not z3.is_false(present) and head_tag(sel) != "vobj":
        # d.get(k, default) as one term (no fork) when the default is a plain value
        try:
            dt = interp.term_of(default) if not isinstance(default, (HObj, Foreign)) else None
        except Unsupported:
            dt = None
        if dt is not None and not isinstance(default, (HDict, HList, HSet)):
            return value_from_term(interp, z3.If(present, sel, dt))
    if interp.ctx.branch(present):
        return value_from_term(interp, sel)
    if missing_raises:
        interp.raise_(KeyError, "key")
    return default


def value_from_term(interp, t):
    t = simp(t)
    if head_tag(t) == "vobj":
        o = t.arg(0)
        if z3.is_int_value(o):
            obj = interp.ctx.ghost.get(("obj", o.as_long()))
            if obj is not None:
                return obj
    return interp.from_term(t)


def remember_obj(interp, v):
    if isinstance(v, (HObj, Foreign)):
        interp.ctx.ghost[("obj", v.oid)] = v
    elif not isinstance(v, (SVal, HDict, HList, HSet)) and not is_plain(v) and interp.is_repo_instance(v):
        interp.ctx.ghost[("obj", interp.live_oid(v))] = v


def check_mutable(interp, obj, what):
    if getattr(obj, "derived", False):
        raise Unsupported("mutation of a container read out of a symbolic value (aliasing not modelled)")
    interp.note_write(obj, what)


def setitem(interp, obj, key, value, fresh_target=False):
    if isinstance(obj, SVal):
        obj = container(interp, obj)
    if isinstance(obj, HDict):
        if not fresh_target:
            check_mutable(interp, obj, ("setitem", key if isinstance(key, str) else "?"))
        if obj.mode == "c" and isinstance(key, str):
            obj.py[key] = value
            return
        kt = key_term(interp, key)
        if kt is None:
            if obj.mode == "c" and is_plain(key):
                obj.py[key] = value
                return
            raise Unsupported("non-str dict key")
        dict_to_sym(interp, obj)
        remember_obj(interp, value)
        had = z3.Select(obj.vals, kt) != VABSENT
        obj.n = simp(z3.If(had, obj.n, obj.n + 1))
        obj.vals = simp(z3.Store(obj.vals, kt, interp.term_of(value)))
        return
    if isinstance(obj, HList):
        check_mutable(interp, obj, ("setitem",))
        if obj.mode == "c" and isinstance(key, int):
            try:
                obj.items[key] = value
            except IndexError as e:
                native_exc(interp, e)
            return
        raise Unsupported("list item store with symbolic index")
    if isinstance(obj, HObj):
        f = interp.class_lookup(obj.cls, "__setitem__")
        if f is not None:
            return interp.call(interp.bind(f, obj, obj.cls), [key, value], {})
    interp.raise_(TypeError, "object does not support item assignment")


def delitem(interp, obj, key):
    if isinstance(obj, SVal):
        obj = container(interp, obj)
    if isinstance(obj, HDict):
        check_mutable(interp, obj, ("delitem", key if isinstance(key, str) else "?"))
        if obj.mode == "c" and isinstance(key, str):
            if key not in obj.py:
                interp.raise_(KeyError, key)
            del obj.py[key]
            return
        kt = key_term(interp, key)
        if kt is None:
            raise Unsupported("non-str dict key")
        dict_to_sym(interp, obj)
        if not interp.ctx.branch(z3.Select(obj.vals, kt) != VABSENT):
            interp.raise_(KeyError, "key")
        obj.vals = simp(z3.Store(obj.vals, kt, VABSENT))
        obj.n = simp(obj.n - 1)
        return
    raise Unsupported("del on %r" % (type(obj),))


def getitem(interp, obj, key):
    obj = container(interp, obj)
    if isinstance(obj, HDict):
        kt = None
        if isinstance(key, str):
            return dict_get(interp, obj, key, missing_raises=True)
        kt = key_term(interp, key)
        if kt is None:
            if obj.mode == "c" and is_plain(key):
                if key in obj.py:
                    return obj.py[key]
                interp.raise_(KeyError, key)
            # non-str hashable key on a str-keyed dict: never present
            interp.raise_(KeyError, "key")
        return dict_get(interp, obj, kt, missing_raises=True)
    if isinstance(obj, (HList, tuple)):
        items = obj.items if isinstance(obj, HList) and obj.mode == "c" else (list(obj) if isinstance(obj, tuple) else None)
        if items is not None:
            if isinstance(key, int):
                try:
                    return items[key]
                except IndexError as e:
                    native_exc(interp, e)
            tk = interp.tag(key)
            if tk not in ("vint", "vbool"):
                interp.raise_(TypeError, "list indices must be integers")
            it = interp.int_term(key)
            n = len(items)
            conds = [it == i for i in range(n)] + [z3.Or(it < -n, it >= n)] + [it == i - n for i in range(n)]
            i = interp.ctx.choose(conds)
            if i < n:
                return items[i]
            if i == n:
                interp.raise_(IndexError, "list index out of range")
            return items[i - n - 1]
        # symbolic list
        tk = interp.tag(key)
        if tk not in ("vint", "vbool"):
            interp.raise_(TypeError, "list indices must be integers")
        it = interp.int_term(key)
        ln = z3.Length(obj.seq)
        from .core import Nth
        from .loops import nth_bridge
        if interp.ctx.branch(z3.And(it >= 0, it < ln)):
            if z3.is_int_value(simp(it)):
                return value_from_term(interp, obj.seq[it])
            nth_bridge(interp.ctx, obj.seq)
            return value_from_term(interp, Nth(obj.seq, it))
        if interp.ctx.branch(z3.And(it < 0, it >= -ln)):
            return value_from_term(interp, obj.seq[ln + it])
        interp.raise_(IndexError, "list index out of range")
    tg = interp.tag(obj)
    if tg in ("vstr", "vbytes"):
        if is_plain(obj) and is_plain(key):
            try:
                return obj[key]
            except Exception as e:  # noqa
                native_exc(interp, e)
        tk = interp.tag(key)
        if tk not in ("vint", "vbool"):
            interp.raise_(TypeError, "indices must be integers")
        t = interp.text_term(obj)
        it = interp.int_term(key)
        ln = z3.Length(t)
        if not interp.ctx.branch(z3.And(it >= -ln, it < ln)):
            interp.raise_(IndexError, "index out of range")
        idx = z3.If(it >= 0, it, ln + it)
        ch = z3.SubString(t, idx, 1)
        if tg == "vstr":
            return interp.mk("vstr", ch)
        return interp.mk("vint", z3.StrToCode(ch))
    if isinstance(obj, HObj):
        f = interp.class_lookup(obj.cls, "__getitem__")
        if not isinstance(f, type(None)) and f.__class__.__name__ != "object" and isinstance(f, types.FunctionType):
            return interp.call(interp.bind(f, obj, obj.cls), [key], {})
        interp.raise_(TypeError, "object is not subscriptable")
    if isinstance(obj, type) or type(obj).__module__ == "typing":
        return obj     # typing generics such as Recipient[Key](...)
    if interp.is_repo_instance(obj):
        f = interp.class_lookup(type(obj), "__getitem__")
        if isinstance(f, types.FunctionType):
            return interp.call(interp.bind(f, obj, type(obj)), [key], {})
    if tg in ("vnone", "vint", "vbool", "vfloat", "vobj", "vset"):
        interp.raise_(TypeError, "object is not subscriptable")
    raise Unsupported("subscript on %r" % (type(obj),))


def getslice(interp, obj, lo, hi):
    if is_plain(obj) and is_plain(lo) and is_plain(hi):
        try:
            return obj[lo:hi]
        except Exception as e:  # noqa
            native_exc(interp, e)
    obj = container(interp, obj)
    if isinstance(obj, HList) and obj.mode == "c" and is_plain(lo) and is_plain(hi):
        return HList(items=obj.items[lo:hi])
    tg = interp.tag(obj)
    if tg in ("vstr", "vbytes"):
        t = interp.text_term(obj)
        ln = z3.Length(t)

        def norm(x, default):
            if x is None:
                return default
            if interp.tag(x) not in ("vint", "vbool"):
                interp.raise_(TypeError, "slice indices must be integers")
            xt = interp.int_term(x)
            xt = z3.If(xt < 0, z3.If(xt + ln < 0, z3.IntVal(0), xt + ln), z3.If(xt > ln, ln, xt))
            return xt
        # structural case: text is a concatenation and the slice boundaries fall between pieces
        from .strings import flatten_concat, concat
        parts = flatten_concat(simp(t))
        if len(parts) >= 2:
            def cut_of(bound, default):
                """index into parts where the boundary falls, or None"""
                if bound is None:
                    return default
                if interp.tag(bound) not in ("vint", "vbool"):
                    return None
                bt = simp(interp.int_term(bound))
                neg = z3.is_int_value(bt) and bt.as_long() < 0
                if neg:
                    acc = z3.IntVal(0)
                    for cut in range(len(parts) - 1, 0, -1):
                        acc = simp(acc + z3.Length(parts[cut]))
                        if interp.ctx.entails(-bt == acc):
                            return cut
                    return None
                if z3.is_int_value(bt) and bt.as_long() == 0:
                    return 0
                acc = z3.IntVal(0)
                for cut in range(1, len(parts)):
                    acc = simp(acc + z3.Length(parts[cut - 1]))
                    if interp.ctx.entails(z3.And(bt == acc, bt >= 0)):
                        return cut
                return None
            if lo is not None or hi is not None:
                ca = cut_of(lo, 0)
                cb = cut_of(hi, len(parts))
                if ca is not None and cb is not None and ca <= cb:
                    return interp.mk(tg, simp(concat(parts[ca:cb])))
        a = norm(lo, z3.IntVal(0))
        b = norm(hi, ln)
        r = z3.SubString(t, a, z3.If(b - a < 0, z3.IntVal(0), b - a))
        return interp.mk(tg, r)
    raise Unsupported("slice of %s" % tg)


def elem_eq_any(interp, x, items):
    parts = [interp.eq_term(x, y) for y in items]
    if any(p is True for p in parts):
        return True
    parts = [p for p in parts if p is not False]
    if not parts:
        return False
    return simp(z3.Or(*parts))


def contains(interp, cont, x):
    """x in cont -> Bool term / bool (may raise TypeError)."""
    if is_plain(cont) and is_plain(x) and not isinstance(cont, (type(None), int, float)):
        try:
            return x in cont
        except Exception as e:  # noqa
            native_exc(interp, e)
    cont = container(interp, cont)
    if isinstance(cont, HDict):
        if isinstance(x, str):
            return dict_has_term(interp, cont, x)
        kt = key_term(interp, x)
        if kt is None:
            if cont.mode == "c" and is_plain(x):
                return x in cont.py
            return False
        return dict_has_term(interp, cont, kt)
    if isinstance(cont, DictView):
        if cont.kind == "keys":
            return contains(interp, cont.d, x)
        raise Unsupported("in on dict view")
    if isinstance(cont, tuple):
        return elem_eq_any(interp, x, list(cont))
    if isinstance(cont, HList):
        if cont.mode == "c":
            return elem_eq_any(interp, x, cont.items)
        # symbolic list: membership by structural equality (numeric cross-type equality of
        # elements is not modelled -- documented)
        return simp(z3.Contains(cont.seq, z3.Unit(interp.term_of(x))))
    if isinstance(cont, HSet):
        if cont.mode == "c":
            return elem_eq_any(interp, x, cont.elems)
        kt = key_term(interp, x)
        if kt is None:
            return False
        return simp(z3.Select(cont.pred, kt))
    tg = interp.tag(cont)
    if tg == "vstr":
        tx = interp.tag(x)
        if tx != "vstr":
            interp.raise_(TypeError, "'in <string>' requires string as left operand")
        return simp(z3.Contains(interp.str_term(cont), interp.str_term(x)))
    if tg == "vbytes":
        tx = interp.tag(x)
        if tx == "vbytes":
            ct_, xt_ = interp.bytes_term(cont), interp.bytes_term(x)
            parts_ = __import__("pyvc.strings", fromlist=["x"]).flatten_concat(simp(ct_))
            if z3.is_string_value(xt_) and len(S.str_value(xt_) if hasattr(S, "str_value") else "x") >= 0:
                from .core import str_value as _sv
                if len(_sv(xt_)) == 1 and all(S.b64u_free_of(p_, xt_) or (S.is_rep_of(p_, "=") and _sv(xt_) != "=") or (z3.is_string_value(p_) and _sv(xt_) not in _sv(p_)) for p_ in parts_):
                    return False
            return simp(z3.Contains(ct_, xt_))
        if tx in ("vint", "vbool"):
            it = interp.int_term(x)
            if not interp.ctx.branch(z3.And(it >= 0, it < 256)):
                interp.raise_(ValueError, "byte must be in range(0, 256)")
            return simp(z3.Contains(interp.bytes_term(cont), z3.StrFromCode(it)))
        interp.raise_(TypeError, "a bytes-like object is required")
    if tg in ("vnone", "vint", "vbool", "vfloat"):
        interp.raise_(TypeError, "argument is not iterable")
    if isinstance(cont, HObj):
        f = interp.class_lookup(cont.cls, "__contains__")
        if isinstance(f, types.FunctionType):
            return interp.truth_term(interp.call(interp.bind(f, cont, cont.cls), [x], {}))
        f = interp.class_lookup(cont.cls, "__iter__")
        if isinstance(f, types.FunctionType):
            it = interp.call(interp.bind(f, cont, cont.cls), [], {})
            return contains(interp, it, x)
    raise Unsupported("in on %r" % (cont,))


# ---------------------------------------------------------------------------------------------
# dict update / copy

def dict_update(interp, d, other, fresh_target=False):
    if not fresh_target:
        check_mutable(interp, d, ("update",))
    if isinstance(other, SVal):
        tg = interp.tag(other)
        if tg == "vdict":
            other = container(interp, other)
        elif tg == "vlist":
            # dict.update(list): elements must be key/value pairs
            l = as_hlist(interp, other)
            if interp.ctx.branch(z3.Length(l.seq) == 0):
                return
            # non-empty list of JSON values: a 2-element list item is a pair, anything else raises;
            # both ValueError and TypeError are possible (element kind) -- split
            if interp.ctx.branch(interp.ctx.fresh("upd_list_valueerror", BoolSort)):
                interp.raise_(ValueError, "dictionary update sequence element")
            if interp.ctx.branch(interp.ctx.fresh("upd_list_typeerror", BoolSort)):
                interp.raise_(TypeError, "cannot convert dictionary update sequence element")
            raise Unsupported("dict.update with a list of pairs")
        elif tg == "vstr":
            if interp.ctx.branch(z3.Length(interp.str_term(other)) == 0):
                return
            interp.raise_(ValueError, "dictionary update sequence element #0 has length 1; 2 is required")
        elif tg == "vbytes":
            if interp.ctx.branch(z3.Length(interp.bytes_term(other)) == 0):
                return
            interp.raise_(TypeError, "cannot convert dictionary update sequence element #0 to a sequence")
        else:
            interp.raise_(TypeError, "object is not iterable")
    if isinstance(other, HObj):
        f = interp.class_lookup(other.cls, "keys")
        if isinstance(f, types.FunctionType):
            raise Unsupported("dict.update from a mapping object")
        interp.raise_(TypeError, "object is not iterable")
    if not isinstance(other, HDict):
        if other is None or isinstance(other, (int, float)):
            interp.raise_(TypeError, "object is not iterable")
        raise Unsupported("dict.update(%r)" % (type(other),))
    if other.mode == "c":
        for k, v in other.py.items():
            setitem(interp, d, k, v, fresh_target=True)
        return
    # symbolic other
    if d.mode == "c" and not d.py:
        d.mode = "s"
        d.py = None
        d.vals = other.vals
        d.n = other.n
        return
    dict_to_sym(interp, d)
    ctx = interp.ctx
    newvals = ctx.fresh("upd", z3.ArraySort(StringSort, PyVal))
    newn = ctx.fresh("updn", IntSort)
    k = z3.Const("k!upd", StringSort)
    ov = z3.Select(other.vals, k)
    ctx.axiom(forall([k], z3.Select(newvals, k) == z3.If(ov != VABSENT, ov, z3.Select(d.vals, k)),
                        patterns=[z3.Select(newvals, k)]), "dict.update semantics (pointwise override)")
    ctx.axiom(z3.And(newn >= d.n, newn >= other.n, newn <= d.n + other.n), "dict.update size bounds")
    d.vals = newvals
    d.n = newn


def dict_copy(interp, d):
    if d.mode == "c":
        return HDict(py=dict(d.py))
    return HDict(vals=d.vals, n=d.n)


# ---------------------------------------------------------------------------------------------
# sets

def set_add(interp, s, x, fresh_target=True):
    if s.mode == "c":
        if isinstance(x, (HList, HDict, HSet)):
            interp.raise_(TypeError, "unhashable type")
        if isinstance(x, SVal) and interp.tag(x) in ("vlist", "vdict"):
            interp.raise_(TypeError, "unhashable type")
        for y in s.elems:
            if interp.ctx.branch(_as_bool_term(interp.eq_term(x, y))):
                return
        s.elems.append(x)
        return
    kt = key_term(interp, x)
    if kt is None:
        raise Unsupported("non-str element in predicate set")
    s.pred = simp(z3.Store(s.pred, kt, z3.BoolVal(True)))


def _as_bool_term(b):
    return b


def set_to_pred(interp, s):
    if s.mode == "s":
        return s.pred
    p = z3.K(StringSort, z3.BoolVal(False))
    for x in s.elems:
        kt = key_term(interp, x)
        if kt is None:
            raise Unsupported("non-str element in predicate set")
        p = z3.Store(p, kt, z3.BoolVal(True))
    return p


def set_difference(interp, a, b):
    if a.mode == "c" and b.mode == "c" and all(is_plain(x) for x in a.elems + b.elems):
        return HSet(elems=[x for x in a.elems if x not in b.elems])
    pa, pb = set_to_pred(interp, a), set_to_pred(interp, b)
    ctx = interp.ctx
    r = ctx.fresh("setdiff", ArrSB)
    k = z3.Const("k!sd", StringSort)
    ctx.axiom(forall([k], z3.Select(r, k) == z3.And(z3.Select(pa, k), z3.Not(z3.Select(pb, k))),
                        patterns=[z3.Select(r, k), z3.Select(pa, k)]), "set difference semantics")
    return HSet(pred=r)


def set_union(interp, a, b):
    if a.mode == "c" and b.mode == "c" and all(is_plain(x) for x in a.elems + b.elems):
        out = list(a.elems)
        for x in b.elems:
            if x not in out:
                out.append(x)
        return HSet(elems=out)
    pa, pb = set_to_pred(interp, a), set_to_pred(interp, b)
    ctx = interp.ctx
    r = ctx.fresh("setunion", ArrSB)
    k = z3.Const("k!su", StringSort)
    ctx.axiom(forall([k], z3.Select(r, k) == z3.Or(z3.Select(pa, k), z3.Select(pb, k)),
                        patterns=[z3.Select(r, k), z3.Select(pa, k), z3.Select(pb, k)]), "set union semantics")
    return HSet(pred=r)


def keys_pred(interp, d):
    """Predicate-set of the keys of a dict."""
    if d.mode == "c":
        return HSet(elems=list(d.py.keys()))
    ctx = interp.ctx
    r = ctx.fresh("keys", ArrSB)
    k = z3.Const("k!ks", StringSort)
    ctx.axiom(forall([k], z3.Select(r, k) == (z3.Select(d.vals, k) != VABSENT),
                        patterns=[z3.Select(r, k), z3.Select(d.vals, k)]), "dict.keys() as a set")
    return HSet(pred=r)


# ---------------------------------------------------------------------------------------------
# %-formatting (message text is opaque; hex formats go through spec functions)

def percent_format(interp, fmt, arg):
    if is_plain(fmt) and is_plain(arg):
        try:
            return fmt % arg
        except Exception as e:  # noqa
            native_exc(interp, e)
    if fmt == "%0*x" and isinstance(arg, tuple) and len(arg) == 2:
        width, num = arg
        if interp.tag(num) not in ("vint", "vbool") or interp.tag(width) not in ("vint", "vbool"):
            interp.raise_(TypeError, "%x format: an integer is required")
        r = S.HexPad(interp.int_term(width), interp.int_term(num))
        interp.ctx.axiom(z3.InRe(r, S.ASCII_RE), "'%0*x' rendering is ASCII")
        return interp.mk("vstr", r)
    if fmt == "%02x":
        if interp.tag(arg) not in ("vint", "vbool"):
            interp.raise_(TypeError, "%x format: an integer is required")
        return interp.mk("vstr", S.HexPad(z3.IntVal(2), interp.int_term(arg)))
    if fmt == "%sB":
        # struct format "<n>B"
        if interp.tag(arg) in ("vint", "vbool"):
            return StructFmtB(interp.int_term(arg))
    return SVal(mk_str(interp.ctx.fresh("fmt", StringSort)))


class StructFmtB:
    def __init__(self, n):
        self.n = n


# ---------------------------------------------------------------------------------------------
# isinstance

_TAGMAP = {
    str: ("vstr",), bytes: ("vbytes",), bool: ("vbool",), int: ("vint", "vbool"), float: ("vfloat",),
    dict: ("vdict",), list: ("vlist",), type(None): ("vnone",), object: None,
}


def isinstance_term(interp, v, cls):
    if isinstance(cls, tuple):
        parts = [isinstance_term(interp, v, c) for c in cls]
        if any(p is True for p in parts):
            return True
        parts = [p for p in parts if p is not False]
        if not parts:
            return False
        return simp(z3.Or(*parts))
    if not isinstance(cls, type):
        raise Unsupported("isinstance against %r" % (cls,))
    if cls is object:
        return True
    if isinstance(v, SVal):
        tags = _TAGMAP.get(cls)
        if tags is None:
            if cls in (bytearray, memoryview, tuple, set, frozenset):
                return False
            # JSON-ish symbolic data is never an instance of a library / repo class
            return False
        return interp.is_tag_term(v, tags)
    if isinstance(v, HObj):
        return issubclass(v.cls, cls)
    if isinstance(v, HDict):
        return issubclass(dict, cls)
    if isinstance(v, HList):
        return issubclass(list, cls)
    if isinstance(v, HSet):
        return issubclass(set, cls) or cls is frozenset
    if isinstance(v, Foreign):
        f = interp.cfg.isinstance_foreign.get(cls)
        if f is not None:
            return f(interp, v)
        if cls.__module__ == "builtins" or interp.is_interp_module(cls.__module__):
            return False
        raise Unsupported("isinstance(<foreign %s>, %s)" % (v.kind, cls.__name__))
    if isinstance(v, (Closure, BoundMethod, BuiltinMethod)):
        return False
    return isinstance(v, cls)


# ---------------------------------------------------------------------------------------------
# builtin functions

def call_builtin(interp, f, args, kwargs):
    name = getattr(f, "__name__", None)
    h = _BUILTINS.get(f)
    if h is not None:
        return h(interp, *args, **kwargs)
    if f in interp.cfg.class_hooks:
        return interp.cfg.class_hooks[f](interp, *args, **kwargs)
    if isinstance(f, type) and issubclass(f, BaseException):
        return interp.instantiate(f, args, kwargs)
    if all(is_plain(a) for a in args) and all(is_plain(a) for a in kwargs.values()) and id(f) in interp.cfg.inline_native:
        try:
            return interp.wrap_live(f(*args, **kwargs))
        except Exception as e:  # noqa
            native_exc(interp, e)
    raise Unsupported("call of %s (%s) without a trusted contract" % (name, getattr(f, "__module__", "?")))


def b_isinstance(interp, v, cls):
    return boolval(interp, isinstance_term(interp, v, cls))


def b_len(interp, v):
    if is_plain(v):
        try:
            return len(v)
        except Exception as e:  # noqa
            native_exc(interp, e)
    v = container(interp, v)
    if isinstance(v, HDict):
        if v.mode == "c":
            return len(v.py)
        interp.dict_wf(interp.ctx.dict_term(v.vals, v.n))
        return interp.mk("vint", v.n)
    if isinstance(v, HList):
        if v.mode == "c":
            return len(v.items)
        return interp.mk("vint", z3.Length(v.seq))
    if isinstance(v, HSet):
        if v.mode == "c":
            return len(v.elems)
        raise Unsupported("len of predicate set")
    if isinstance(v, DictView):
        return b_len(interp, v.d)
    tg = interp.tag(v)
    if tg in ("vstr", "vbytes"):
        ln = z3.Length(interp.text_term(v))
        key = ("lenbound", tid(ln))
        if key not in interp.ctx.ghost:
            interp.ctx.ghost[key] = True
            interp.ctx.axiom(ln < 2 ** 31, "octet/character strings handled by one call are shorter than 2^31 (assumption: they fit in memory)")
        return interp.mk("vint", ln)
    if isinstance(v, HObj):
        f = interp.class_lookup(v.cls, "__len__")
        if isinstance(f, types.FunctionType):
            return interp.call(interp.bind(f, v, v.cls), [], {})
    if tg in ("vnone", "vint", "vbool", "vfloat", "vobj"):
        interp.raise_(TypeError, "object has no len()")
    raise Unsupported("len of %r" % (v,))


def b_getattr(interp, obj, name, *default):
    from .interp import _MISSING
    if isinstance(name, str):
        r = interp.get_attr_opt(obj, name)
        if r is _MISSING or (isinstance(r, BuiltinMethod) and not _builtin_has(interp, obj, name)):
            if default:
                return default[0]
            interp.raise_(AttributeError, name)
        return r
    if isinstance(name, SVal) and interp.tag(name) == "vstr":
        nt = interp.str_term(name)
        cls = obj.cls if isinstance(obj, HObj) else type(obj)
        cands = []
        seen = set()
        for k in cls.__mro__:
            if k is object:
                continue
            for a in k.__dict__:
                if a not in seen and not (a.startswith("__") and a.endswith("__")):
                    seen.add(a)
                    cands.append(a)
        if isinstance(obj, HObj):
            for a in obj.attrs:
                if a not in seen:
                    seen.add(a)
                    cands.append(a)
        conds = [nt == z3.StringVal(a) for a in cands]
        conds.append(z3.And(*[nt != z3.StringVal(a) for a in cands]) if cands else True)
        i = interp.ctx.choose(conds)
        if i < len(cands):
            return interp.get_attr(obj, cands[i])
        if default:
            return default[0]
        interp.raise_(AttributeError, "attribute")
    raise Unsupported("getattr with non-str name")


def _builtin_has(interp, obj, name):
    tg = interp.tag(obj)
    t = {"vstr": str, "vbytes": bytes, "vint": int, "vbool": bool, "vfloat": float, "vdict": dict,
         "vlist": list, "vtuple": tuple, "vset": set, "vnone": type(None)}.get(tg, object)
    return hasattr(t, name)


def b_hasattr(interp, obj, name):
    from .interp import _MISSING
    r = interp.get_attr_opt(obj, name)
    if isinstance(r, BuiltinMethod):
        return _builtin_has(interp, obj, name)
    return r is not _MISSING


def b_callable(interp, v):
    if isinstance(v, (Closure, BoundMethod, BuiltinMethod, types.FunctionType, types.BuiltinFunctionType, type, types.MethodType)):
        return True
    if isinstance(v, (SVal, HDict, HList, HSet, Foreign)) or is_plain(v):
        return False
    if isinstance(v, HObj):
        from .interp import _MISSING
        return interp.class_lookup(v.cls, "__call__") is not _MISSING
    return callable(v)


def b_str(interp, *args):
    if not args:
        return ""
    v = args[0]
    if len(args) > 1:
        raise Unsupported("str(bytes, encoding)")
    if is_plain(v):
        return str(v)
    if isinstance(v, SVal):
        tg = interp.tag(v)
        if tg == "vstr":
            return v
        if tg in ("vint",):
            return interp.mk("vstr", S.IntToStr(interp.int_term(v)))
    return SVal(mk_str(interp.ctx.fresh("str", StringSort)))


def b_repr(interp, v):
    if is_plain(v):
        return repr(v)
    return SVal(mk_str(interp.ctx.fresh("repr", StringSort)))


def b_bool(interp, *args):
    if not args:
        return False
    return boolval(interp, interp.truth_term(args[0]))


def b_int(interp, *args, **kw):
    if all(is_plain(a) for a in args):
        try:
            return int(*args, **kw)
        except Exception as e:  # noqa
            native_exc(interp, e)
    v = args[0]
    tg = interp.tag(v)
    if len(args) == 1:
        if tg in ("vint", "vbool"):
            return interp.mk("vint", interp.int_term(v))
        if tg == "vfloat":
            r = interp.real_term(v)
            # int() truncates toward zero
            return interp.mk("vint", z3.If(r >= 0, z3.ToInt(r), -z3.ToInt(-r)))
        raise Unsupported("int(%s)" % tg)
    base = args[1]
    if base == 16 and tg in ("vstr", "vbytes"):
        return S.int_of_hex(interp, interp.text_term(v))
    raise Unsupported("int(x, base)")


def b_bytes(interp, *args):
    if all(is_plain(a) for a in args):
        try:
            return bytes(*args)
        except Exception as e:  # noqa
            native_exc(interp, e)
    if len(args) != 1:
        raise Unsupported("bytes(...) with encoding")
    v = container(interp, args[0])
    tg = interp.tag(v)
    if tg == "vbytes":
        return v
    if tg in ("vnone", "vfloat", "vobj"):
        interp.raise_(TypeError, "cannot convert object to bytes")
    if tg == "vstr":
        interp.raise_(TypeError, "string argument without an encoding")
    if tg == "vdict":
        if interp.ctx.branch(simp(v.n == 0) if v.mode == "s" else (len(v.py) == 0)):
            return b""
        interp.raise_(TypeError, "'str' object cannot be interpreted as an integer")
    if tg in ("vint", "vbool"):
        n = interp.int_term(v)
        if interp.ctx.branch(n < 0):
            interp.raise_(ValueError, "negative count")
        return interp.mk("vbytes", S.Zeros(n))
    if tg == "vlist":
        l = as_hlist(interp, v)
        if interp.ctx.branch((z3.Length(l.seq) == 0) if l.mode == "s" else (len(l.items) == 0)):
            return b""
        # elements must be ints in range(256): otherwise TypeError / ValueError
        k = interp.ctx.choose([interp.ctx.fresh("bytes_list_ok", BoolSort), True, True])
        if k == 1:
            interp.raise_(TypeError, "object cannot be interpreted as an integer")
        if k == 2:
            interp.raise_(ValueError, "bytes must be in range(0, 256)")
        return SVal(mk_bytes(interp.ctx.fresh("bytes_of_list", StringSort)))
    raise Unsupported("bytes(%s)" % tg)


def b_set(interp, *args):
    if not args:
        return HSet(elems=[])
    v = args[0]
    if isinstance(v, DictView) and v.kind == "keys":
        return keys_pred(interp, v.d)
    v = container(interp, v)
    if isinstance(v, HDict):
        return keys_pred(interp, v)
    if isinstance(v, HSet):
        return HSet(elems=list(v.elems)) if v.mode == "c" else HSet(pred=v.pred)
    s = HSet(elems=[])
    for x in interp.iter_concrete(v):
        set_add(interp, s, x)
    return s


def b_list(interp, *args):
    if not args:
        return HList(items=[])
    v = container(interp, args[0])
    if isinstance(v, HList) and v.mode == "s":
        return HList(seq=v.seq)
    from .loops import GenExp, eval_genexp_list
    if isinstance(v, GenExp):
        return eval_genexp_list(interp, v)
    return HList(items=list(interp.iter_concrete(v)))


def b_tuple(interp, *args):
    if not args:
        return ()
    return tuple(interp.iter_concrete(container(interp, args[0])))


def b_dict(interp, *args, **kw):
    d = HDict(py={})
    if args:
        dict_update(interp, d, args[0], fresh_target=True)
    for k, v in kw.items():
        d.py[k] = v
    return d


def b_sorted(interp, v, **kw):
    if kw:
        raise Unsupported("sorted with key/reverse")
    v = container(interp, v)
    if isinstance(v, (HSet, HList, HDict)) and v.mode == "s":
        # order of a symbolic collection: opaque list (only used for message text in joserfc)
        return HList(seq=interp.ctx.fresh("sorted", SeqPV))
    items = interp.iter_concrete(v)
    if all(is_plain(x) for x in items):
        try:
            return HList(items=sorted(items))
        except Exception as e:  # noqa
            native_exc(interp, e)
    if len(items) <= 1:
        return HList(items=list(items))
    raise Unsupported("sorted over symbolic elements")


def b_enumerate(interp, v, start=0):
    v = container(interp, v)
    if isinstance(v, HList) and v.mode == "s":
        from .loops import SymEnumerate
        return SymEnumerate(v)
    return HList(items=[(i + start, x) for i, x in enumerate(interp.iter_concrete(v))])


def b_range(interp, *args):
    if all(isinstance(a, int) for a in args):
        return HList(items=list(range(*args)))
    raise Unsupported("range with symbolic bounds")


def b_iter(interp, v):
    return v


def b_all(interp, v):
    from .loops import quant_over
    return quant_over(interp, v, True)


def b_any(interp, v):
    from .loops import quant_over
    return quant_over(interp, v, False)


def b_frozenset(interp, *args):
    return b_set(interp, *args)


def b_type(interp, v):
    if isinstance(v, HObj):
        return v.cls
    if is_plain(v):
        return type(v)
    raise Unsupported("type() of symbolic value")


def b_id(interp, v):
    return getattr(v, "oid", id(v))


def b_zip(interp, *args):
    lists = [interp.iter_concrete(container(interp, a)) for a in args]
    return HList(items=[tuple(x) for x in zip(*lists)])


def b_min(interp, *args):
    if all(is_plain(a) for a in args):
        return min(*args)
    raise Unsupported("min")


def b_max(interp, *args):
    if all(is_plain(a) for a in args):
        return max(*args)
    raise Unsupported("max")


def b_issubclass(interp, a, b):
    return issubclass(a, b)


def b_print(interp, *a, **k):
    return None


_BUILTINS = {
    builtins.isinstance: b_isinstance, builtins.len: b_len, builtins.getattr: b_getattr,
    builtins.hasattr: b_hasattr, builtins.callable: b_callable, builtins.str: b_str, builtins.bool: b_bool,
    builtins.int: b_int, builtins.bytes: b_bytes, builtins.set: b_set, builtins.list: b_list,
    builtins.tuple: b_tuple, builtins.dict: b_dict, builtins.sorted: b_sorted,
    builtins.enumerate: b_enumerate, builtins.range: b_range, builtins.iter: b_iter, builtins.all: b_all,
    builtins.any: b_any, builtins.frozenset: b_frozenset, builtins.type: b_type, builtins.id: b_id,
    builtins.zip: b_zip, builtins.min: b_min, builtins.max: b_max, builtins.repr: b_repr,
    builtins.issubclass: b_issubclass, builtins.print: b_print,
}


# ---------------------------------------------------------------------------------------------
# methods of builtin types

def call_method(interp, recv, name, args, kwargs):
    if name.startswith("super."):
        # object.__init__ / Exception.__init__ reached through super()
        if name == "super.__init__":
            if isinstance(recv, HObj) and issubclass(recv.cls, BaseException):
                recv.attrs["args"] = tuple(args)
            return None
        raise Unsupported(name)
    if isinstance(recv, DictView):
        raise Unsupported("method %s of dict view" % name)
    if is_plain(recv) and all(is_plain(a) for a in args) and all(is_plain(a) for a in kwargs.values()):
        m = getattr(recv, name, None)
        if m is None:
            interp.raise_(AttributeError, name)
        try:
            r = m(*args, **kwargs)
        except Exception as e:  # noqa
            native_exc(interp, e)
        if isinstance(r, list):
            return HList(items=list(r))
        if isinstance(r, dict):
            return HDict(py=dict(r))
        return r
    recv = container(interp, recv)
    if isinstance(recv, HDict):
        return dict_method(interp, recv, name, args, kwargs)
    if isinstance(recv, HList):
        return list_method(interp, recv, name, args, kwargs)
    if isinstance(recv, HSet):
        return set_method(interp, recv, name, args, kwargs)
    tg = interp.tag(recv)
    if tg in ("vstr", "vbytes"):
        from . import strings
        return strings.text_method(interp, recv, tg, name, args, kwargs)
    if tg in ("vint", "vbool"):
        if name == "bit_length" and tg == "vint":
            return interp.mk("vint", S.bit_length(interp, interp.int_term(recv)))
        if name == "to_bytes":
            return S.int_to_bytes(interp, interp.int_term(recv), *args, **kwargs)
        if not hasattr(int, name):
            interp.raise_(AttributeError, name)
        raise Unsupported("int method %s" % name)
    if tg == "vtuple":
        raise Unsupported("tuple method %s on symbolic elements" % name)
    # attribute error for values without that method
    t = {"vnone": type(None), "vfloat": float, "vobj": object}.get(tg, object)
    if not hasattr(t, name):
        interp.raise_(AttributeError, "object has no attribute %s" % name)
    raise Unsupported("method %s on %s" % (name, tg))


def dict_method(interp, d, name, args, kwargs):
    if name == "get":
        k = args[0]
        default = args[1] if len(args) > 1 else None
        if isinstance(k, str):
            return dict_get(interp, d, k, default)
        kt = key_term(interp, k)
        if kt is None:
            if d.mode == "c" and is_plain(k):
                return d.py.get(k, default)
            return default
        return dict_get(interp, d, kt, default)
    if name == "update":
        if args:
            dict_update(interp, d, args[0])
        if kwargs:
            dict_update(interp, d, HDict(py=dict(kwargs)))
        return None
    if name == "copy":
        return dict_copy(interp, d)
    if name in ("keys", "values", "items"):
        return DictView(d, name)
    if name == "pop":
        k = args[0]
        has = contains(interp, d, k)
        if interp.ctx.branch(has):
            v = getitem(interp, d, k)
            delitem(interp, d, k)
            return v
        if len(args) > 1:
            return args[1]
        interp.raise_(KeyError, "key")
    if name == "setdefault":
        k = args[0]
        has = contains(interp, d, k)
        if interp.ctx.branch(has):
            return getitem(interp, d, k)
        v = args[1] if len(args) > 1 else None
        setitem(interp, d, k, v)
        return v
    if name == "__contains__":
        return boolval(interp, contains(interp, d, args[0]))
    if name == "__getitem__":
        return getitem(interp, d, args[0])
    if name == "clear":
        check_mutable(interp, d, ("clear",))
        d.mode = "c"
        d.py = {}
        d.vals = d.n = None
        return None
    if not hasattr(dict, name):
        interp.raise_(AttributeError, "'dict' object has no attribute %r" % name)
    raise Unsupported("dict method %s" % name)


def list_method(interp, l, name, args, kwargs):
    if name == "append":
        check_mutable(interp, l, ("append",))
        if l.mode == "c":
            l.items.append(args[0])
        else:
            remember_obj(interp, args[0])
            l.seq = z3.Concat(l.seq, z3.Unit(interp.term_of(args[0])))
        return None
    if name == "extend":
        check_mutable(interp, l, ("extend",))
        other = container(interp, args[0])
        if l.mode == "c":
            l.items.extend(interp.iter_concrete(other))
            return None
        raise Unsupported("extend on symbolic list")
    if name == "pop":
        check_mutable(interp, l, ("pop",))
        if l.mode == "c":
            try:
                return l.items.pop(*args)
            except IndexError as e:
                native_exc(interp, e)
        raise Unsupported("pop on symbolic list")
    if name == "copy":
        return HList(items=list(l.items)) if l.mode == "c" else HList(seq=l.seq)
    if name == "index" or name == "count" or name == "sort" or name == "reverse" or name == "insert" or name == "remove":
        raise Unsupported("list method %s" % name)
    if name == "__contains__":
        return boolval(interp, contains(interp, l, args[0]))
    if not hasattr(list, name):
        interp.raise_(AttributeError, "'list' object has no attribute %r" % name)
    raise Unsupported("list method %s" % name)


def set_method(interp, s, name, args, kwargs):
    if name == "add":
        interp.note_write(s, ("add",))
        set_add(interp, s, args[0])
        return None
    if name == "pop":
        interp.note_write(s, ("pop",))
        if s.mode == "c":
            if not s.elems:
                interp.raise_(KeyError, "pop from an empty set")
            return s.elems.pop(0)
        raise Unsupported("pop on predicate set")
    if name == "copy":
        return HSet(elems=list(s.elems)) if s.mode == "c" else HSet(pred=s.pred)
    if name == "difference":
        return set_difference(interp, s, b_set(interp, args[0]))
    if name == "union":
        return set_union(interp, s, b_set(interp, args[0]))
    if name == "issubset":
        other = b_set(interp, args[0])
        pa, pb = set_to_pred(interp, s), set_to_pred(interp, other)
        k = z3.Const("k!ss", StringSort)
        return boolval(interp, forall([k], z3.Implies(z3.Select(pa, k), z3.Select(pb, k))))
    if name == "__contains__":
        return boolval(interp, contains(interp, s, args[0]))
    raise Unsupported("set method %s" % name)
