"""pyvc.reference -- native reference implementations of the spec functions on raw primitives
(cryptography / hashlib / hmac), independent of joserfc's glue.  Used by the native evaluator."""
from __future__ import annotations
import hashlib
import hmac

_KEYS = {}

SIG_SPEC = {
    # alg: (family, hash, extra)
    "HS256": ("hmac", "sha256", None), "HS384": ("hmac", "sha384", None), "HS512": ("hmac", "sha512", None),
    "RS256": ("rsa-pkcs1", "sha256", None), "RS384": ("rsa-pkcs1", "sha384", None), "RS512": ("rsa-pkcs1", "sha512", None),
    "PS256": ("rsa-pss", "sha256", 32), "PS384": ("rsa-pss", "sha384", 48), "PS512": ("rsa-pss", "sha512", 64),
    "ES256": ("ecdsa", "sha256", ("secp256r1", 32)), "ES384": ("ecdsa", "sha384", ("secp384r1", 48)),
    "ES512": ("ecdsa", "sha512", ("secp521r1", 66)), "ES256K": ("ecdsa", "sha256", ("secp256k1", 32)),
    "EdDSA": ("eddsa", None, None), "none": ("none", None, None),
}


def raw_key(kind, name, curve=None, bits=2048):
    """A real key of the requested shape (cached by name so that the same name is the same key)."""
    from cryptography.hazmat.primitives.asymmetric import rsa, ec, ed25519, ed448, x25519, x448
    k = (kind, name, curve, bits)
    if k not in _KEYS:
        if kind == "rsa":
            _KEYS[k] = rsa.generate_private_key(public_exponent=65537, key_size=bits)
        elif kind == "ec":
            c = {"secp256r1": ec.SECP256R1, "secp384r1": ec.SECP384R1, "secp521r1": ec.SECP521R1, "secp256k1": ec.SECP256K1}[curve]
            _KEYS[k] = ec.generate_private_key(c())
        elif kind == "okp":
            c = {"ed25519": ed25519.Ed25519PrivateKey, "ed448": ed448.Ed448PrivateKey,
                 "x25519": x25519.X25519PrivateKey, "x448": x448.X448PrivateKey}[curve]
            _KEYS[k] = c.generate()
        else:
            raise ValueError(kind)
    return _KEYS[k]


def _hash(name):
    from cryptography.hazmat.primitives import hashes
    return {"sha1": hashes.SHA1, "sha256": hashes.SHA256, "sha384": hashes.SHA384, "sha512": hashes.SHA512}[name]()


def verify(alg, pub_or_secret, msg, sig):
    """RFC 7518 section 3 / RFC 8037 / RFC 8812 verification on raw primitives."""
    from cryptography.hazmat.primitives.asymmetric import padding, ec, utils
    from cryptography.exceptions import InvalidSignature
    fam, hn, extra = SIG_SPEC[alg]
    try:
        if fam == "none":
            return False
        if fam == "hmac":
            return hmac.compare_digest(hmac.new(pub_or_secret, msg, getattr(hashlib, hn)).digest(), sig)
        if fam == "rsa-pkcs1":
            pub_or_secret.verify(sig, msg, padding.PKCS1v15(), _hash(hn))
            return True
        if fam == "rsa-pss":
            pub_or_secret.verify(sig, msg, padding.PSS(mgf=padding.MGF1(_hash(hn)), salt_length=extra), _hash(hn))
            return True
        if fam == "ecdsa":
            L = extra[1]
            if len(sig) != 2 * L:
                return False
            r = int.from_bytes(sig[:L], "big")
            s = int.from_bytes(sig[L:], "big")
            pub_or_secret.verify(utils.encode_dss_signature(r, s), msg, ec.ECDSA(_hash(hn)))
            return True
        if fam == "eddsa":
            pub_or_secret.verify(sig, msg)
            return True
    except InvalidSignature:
        return False
    raise ValueError(alg)


def sign(alg, priv_or_secret, msg):
    from cryptography.hazmat.primitives.asymmetric import padding, ec, utils
    fam, hn, extra = SIG_SPEC[alg]
    if fam == "hmac":
        return hmac.new(priv_or_secret, msg, getattr(hashlib, hn)).digest()
    if fam == "rsa-pkcs1":
        return priv_or_secret.sign(msg, padding.PKCS1v15(), _hash(hn))
    if fam == "rsa-pss":
        return priv_or_secret.sign(msg, padding.PSS(mgf=padding.MGF1(_hash(hn)), salt_length=extra), _hash(hn))
    if fam == "ecdsa":
        L = extra[1]
        r, s = utils.decode_dss_signature(priv_or_secret.sign(msg, ec.ECDSA(_hash(hn))))
        return r.to_bytes(L, "big") + s.to_bytes(L, "big")
    if fam == "eddsa":
        return priv_or_secret.sign(msg)
    if fam == "none":
        return b""
    raise ValueError(alg)
