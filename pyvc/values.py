"""pyvc.values -- interpreter-level values, exploration context (path condition, forking)."""
from __future__ import annotations
from .core import tid
import itertools
from .core import (z3, PyVal, C, R, A, TAGS, VABSENT, VNONE, StringSort, IntSort, BoolSort, SeqPV,
                   EMPTY_VALS, lift, lower, simp, head_tag, NotConcrete, mk_bool, mk_int, mk_float,
                   mk_str, mk_bytes, mk_list, mk_dict, mk_obj, is_tag, fresh_name, bytes_to_smt, str_value)


class Unsupported(Exception):
    """The code left the interpretable subset: never a violation (exit 2)."""


class PathKilled(Exception):
    """Current path is infeasible / excluded by an assumption."""


class PyRaise(Exception):
    """A Python exception propagating in the interpreted program."""
    def __init__(self, exc):
        super().__init__(repr(exc))
        self.exc = exc


class SVal:
    """Symbolic dynamically-typed Python value: a z3 term of sort PyVal."""
    __slots__ = ("t",)

    def __init__(self, t):
        self.t = t

    def __repr__(self):
        s = str(self.t)
        return "SVal(%s)" % (s if len(s) < 120 else s[:117] + "...")


_oid = itertools.count(1000)


class HObj:
    """Instance of a (repo / harness / exception) class created during interpretation."""
    def __init__(self, cls, attrs=None, pre_existing=False):
        self.cls = cls
        self.attrs = attrs if attrs is not None else {}
        self.oid = next(_oid)
        self.pre_existing = pre_existing   # existed before the call under proof (shared state)
        self.label = None

    def __repr__(self):
        return "<HObj %s #%d>" % (getattr(self.cls, "__name__", self.cls), self.oid)


class HDict:
    """dict. mode 'c': concrete str keys -> interpreter values (self.py).
    mode 's': symbolic (self.vals: Array String PyVal, self.n: Int); values are PyVal terms."""
    def __init__(self, py=None, vals=None, n=None, pre_existing=False, label=None):
        self.oid = next(_oid)
        self.pre_existing = pre_existing
        self.label = label
        self.derived = False     # produced by reading a nested value out of a term (writes do not alias)
        if vals is not None:
            self.mode = "s"
            self.vals = vals
            self.n = n
            self.py = None
        else:
            self.mode = "c"
            self.py = py if py is not None else {}
            self.vals = None
            self.n = None

    def __repr__(self):
        if self.mode == "c":
            return "<HDict c %r>" % (list(self.py.keys()),)
        return "<HDict s #%d>" % self.oid


class HList:
    """list. mode 'c': python list of interpreter values. mode 's': Seq PyVal term."""
    def __init__(self, items=None, seq=None, pre_existing=False, label=None):
        self.oid = next(_oid)
        self.pre_existing = pre_existing
        self.label = label
        self.derived = False
        if seq is not None:
            self.mode = "s"
            self.seq = seq
            self.items = None
        else:
            self.mode = "c"
            self.items = items if items is not None else []
            self.seq = None

    def __repr__(self):
        if self.mode == "c":
            return "<HList c len=%d>" % len(self.items)
        return "<HList s #%d>" % self.oid


class HSet:
    """set. mode 'c': python list of distinct interpreter values (concrete hashables or SVals known
    pairwise distinct). mode 's': predicate over strings (Array String Bool)."""
    def __init__(self, elems=None, pred=None, pre_existing=False):
        self.oid = next(_oid)
        self.pre_existing = pre_existing
        self.label = None
        if pred is not None:
            self.mode = "s"
            self.pred = pred
            self.elems = None
        else:
            self.mode = "c"
            self.elems = elems if elems is not None else []
            self.pred = None


class Foreign:
    """Abstract external object (crypto key, hash object, decompressor, padding ...)."""
    def __init__(self, kind, **fields):
        self.kind = kind
        self.f = fields
        self.oid = next(_oid)
        self.pre_existing = False
        self.label = None

    def __repr__(self):
        return "<Foreign %s #%d>" % (self.kind, self.oid)


class Closure:
    def __init__(self, node, env, glob, cls_ctx, qualname, defaults=None, kwdefaults=None, live=None):
        self.node = node
        self.env = env
        self.glob = glob
        self.cls_ctx = cls_ctx
        self.qualname = qualname
        self.defaults = defaults or ()
        self.kwdefaults = kwdefaults or {}
        self.live = live

    def __repr__(self):
        return "<Closure %s>" % self.qualname


class BoundMethod:
    def __init__(self, func, recv):
        self.func = func
        self.recv = recv

    def __repr__(self):
        return "<BoundMethod %r of %r>" % (self.func, self.recv)


class BuiltinMethod:
    """Method of a builtin type on an interpreter value (str/bytes/dict/list/set/int ...)."""
    def __init__(self, recv, name):
        self.recv = recv
        self.name = name

    def __repr__(self):
        return "<BuiltinMethod %s>" % self.name


class ForeignMethod:
    def __init__(self, recv, name):
        self.recv = recv
        self.name = name


class SuperProxy:
    def __init__(self, after_cls, obj):
        self.after_cls = after_cls
        self.obj = obj


class DictView:
    def __init__(self, d, kind):
        self.d = d
        self.kind = kind   # keys / values / items


# ---------------------------------------------------------------------------------------------

class PathResult:
    def __init__(self):
        self.pc = []
        self.kind = None        # 'return' | 'raise' | 'unsupported' | 'killed'
        self.value = None
        self.exc = None
        self.checks = []        # (label, goal Bool, pc snapshot len, info)
        self.covers = []
        self.writes = []
        self.events = []
        self.note = None
        self.trail = None
        self.inputs = {}


class Ctx:
    """One exploration: DFS over decision trails by re-execution."""

    def __init__(self, timeout_ms=20):
        self.worklist = [[]]
        self.timeout_ms = timeout_ms
        self.stats = {"paths": 0, "forks": 0, "feas_checks": 0, "feas_unknown": 0}
        self.max_paths = 20000
        # per-path state
        self.feas_cache = {}
        self.feas_keep = []
        self.summary_cache = {}
        self._reset_path([])
        self.axiom_log = set()

    # -- per path -------------------------------------------------------------------------
    def _reset_path(self, prefix):
        self.prefix = prefix
        self.trail = []
        self.pc = []
        self.lazy = []
        self.pc_ids = set()
        self.solver = z3.SimpleSolver()
        self.solver.set("timeout", self.timeout_ms)
        self.solver.set("smt.mbqi", False)

        self.known_tags = {}
        self.overlay = {}          # (id(live obj), attr) -> value
        self.live_wrap = {}        # id(live container) -> HDict/HList/HSet
        self.live_keep = []        # keep live objects alive (ids stable)
        self.writes = []
        self.events = []
        self.checks = []
        self.covers = []
        self.inputs = {}
        self.bound = []            # bound variables of enclosing summarizations
        self.frozen = 0            # >0: heap writes to objects older than freeze mark are impure
        self.freeze_marks = []
        self.wf_done = set()
        self.call_depth = 0
        self.in_call_under_proof = 0
        self.ghost = {}
        self.opaque_specs = 0

    def add(self, fact):
        """Assume a fact on the current path."""
        if isinstance(fact, bool):
            if not fact:
                raise PathKilled()
            return
        f = fact if z3.is_quantifier(fact) else simp(fact)
        if z3.is_true(f):
            return
        if z3.is_false(f):
            raise PathKilled()
        self.pc.append(f)
        self.pc_ids.add(tid(f))
        self.solver.add(f)

    def axiom(self, fact, name=None):
        """Instance of a trusted axiom / datatype invariant.  Regular-expression membership facts are
        *lazy*: recorded (so structural queries see them) and added to every proof obligation, but kept out
        of the incremental path-feasibility solver, whose sat-direction answers they would slow down."""
        if name:
            self.axiom_log.add(name)
        if not isinstance(fact, bool) and z3.is_app(fact) and fact.decl().kind() == z3.Z3_OP_SEQ_IN_RE:
            f = simp(fact)
            if z3.is_true(f):
                return
            if tid(f) not in self.pc_ids:
                self.pc_ids.add(tid(f))
                self.lazy.append(f)
                self.pc.append(f)
            return
        self.add(fact)

    def dict_term(self, vals, n):
        """PyVal term of a dict with content `vals` and size `n`; DId is a bijection (ground instances)."""
        from .core import mk_dict, DArr, DN, DId
        t = mk_dict(vals, n)
        key = ("dictterm", tid(t))
        if key not in self.ghost:
            self.ghost[key] = True
            i = DId(vals, n)
            self.axiom(z3.And(DArr(i) == vals, DN(i) == n), "dict id <-> (content, size) bijection")
        return t

    def dict_view(self, t):
        """(vals, n) of a dict-valued term."""
        from .core import dvals, dn, DArr, DN, DId, A
        v, n = simp(dvals(t)), simp(dn(t))
        d = simp(A["d"](t))
        if not (z3.is_app(d) and d.decl().eq(DId)):
            key = ("dictview", tid(d))
            if key not in self.ghost:
                self.ghost[key] = True
                self.axiom(DId(DArr(d), DN(d)) == d, "dict id <-> (content, size) bijection")
        return v, n

    def known(self, fact):
        """Syntactic: the (simplified) fact is literally on the path condition."""
        f = simp(fact)
        return z3.is_true(f) or tid(f) in self.pc_ids

    def feasible(self, cond):
        self.stats["feas_checks"] += 1
        import time as _t, os as _os
        ck = (hash(frozenset(self.pc_ids)), len(self.pc), tid(cond))
        hit = self.feas_cache.get(ck)
        if hit is not None:
            self.stats["feas_cached"] = self.stats.get("feas_cached", 0) + 1
            return hit
        t0 = _t.time()
        self.solver.push()
        self.solver.add(cond)
        r = self.solver.check()
        self.solver.pop()
        self.feas_cache[ck] = (r != z3.unsat)
        self.feas_keep.append(cond)
        dt = _t.time() - t0
        if r == z3.unsat:
            b = "unsat_lt10" if dt < 0.01 else ("unsat_lt30" if dt < 0.03 else ("unsat_lt60" if dt < 0.06 else "unsat_ge60"))
            self.stats[b] = self.stats.get(b, 0) + 1
        elif r == z3.sat:
            b = "sat_lt10" if dt < 0.01 else ("sat_lt30" if dt < 0.03 else ("sat_lt60" if dt < 0.06 else "sat_ge60"))
            self.stats[b] = self.stats.get(b, 0) + 1
        self.stats["feas_time"] = self.stats.get("feas_time", 0.0) + dt
        if _os.environ.get("PYVC_TRACE") and dt > 0.3:
            print("SLOW feasible %.2fs -> %s : %s" % (dt, r, str(cond)[:200]), flush=True)
        if r == z3.unknown:
            self.stats["feas_unknown"] += 1
        return r != z3.unsat

    def entails(self, cond):
        """pc |= cond (definitely)."""
        c = simp(cond)
        if z3.is_true(c):
            return True
        if z3.is_false(c):
            return False
        if tid(c) in self.pc_ids:
            return True
        self.stats["feas_checks"] += 1
        self.solver.push()
        for lz in self.lazy:
            self.solver.add(lz)
        self.solver.add(z3.Not(c))
        r = self.solver.check()
        self.solver.pop()
        return r == z3.unsat

    def choose(self, conds, labels=None):
        """Fork over alternatives (list of Bool terms / bools).  Returns the chosen index and assumes its
        condition.  `labels` (stable names of the alternatives) make re-execution robust when the *set* of
        alternatives differs between executions (solver time-outs during pruning are not deterministic)."""
        conds = [c if isinstance(c, bool) else simp(c) for c in conds]
        idx = len(self.trail)
        if idx < len(self.prefix):
            k = self.prefix[idx]
            if labels is not None:
                if k not in labels:
                    raise PathKilled()      # the alternative was pruned (proved infeasible) in this execution
                self.trail.append(k)
                k = labels.index(k)
            else:
                if not isinstance(k, int) or k >= len(conds):
                    raise PathKilled()
                self.trail.append(k)
            self.add(conds[k])
            return k
        # syntactic shortcuts
        live = []
        for i, c in enumerate(conds):
            if isinstance(c, bool):
                if c:
                    live.append(i)
            elif z3.is_true(c):
                live.append(i)
            elif z3.is_false(c):
                pass
            else:
                live.append(i)
        definite = [i for i in live if (conds[i] is True or (not isinstance(conds[i], bool) and z3.is_true(conds[i])))]
        if definite and labels is None:
            k = definite[0]
            self.trail.append(k)
            return k
        feas = []
        for n_, i in enumerate(live):
            if self.feasible(conds[i]):
                feas.append(i)
        if not feas:
            raise PathKilled()
        k = feas[0]
        for j in feas[1:]:
            self.worklist.append(self.trail + [labels[j] if labels is not None else j])
            self.stats["forks"] += 1
        self.trail.append(labels[k] if labels is not None else k)
        self.add(conds[k])
        return k

    def branch(self, cond):
        """Fork on a Bool term (or python bool). Returns python bool."""
        if isinstance(cond, bool):
            return cond
        c = simp(cond)
        if z3.is_true(c):
            return True
        if z3.is_false(c):
            return False
        if tid(c) in self.pc_ids:
            return True
        if tid(simp(z3.Not(c))) in self.pc_ids:
            return False
        k = self.choose([c, z3.Not(c)])
        return k == 0

    # -- fresh symbols (functions of enclosing bound variables) ---------------------------
    def fresh(self, prefix, sort):
        name = fresh_name(prefix)
        if not self.bound:
            return z3.Const(name, sort)
        f = z3.Function(name, *([b.sort() for b in self.bound] + [sort]))
        return f(*self.bound)

    def fresh_val(self, prefix):
        return self.fresh(prefix, PyVal)
