"""pyvc.spec -- spec functions (the oracle vocabulary) as uninterpreted SMT functions with
ground-instantiated axioms, each paired with a concrete reference implementation (``ref_*``)
that is independent of joserfc's code.  Octet strings and text are SMT strings.
"""
from __future__ import annotations
from .core import tid
import base64 as _b64
import json as _json
from .core import (z3, PyVal, A, C, StringSort, IntSort, BoolSort, mk_bytes, mk_str, mk_int, simp, is_tag)
from .values import Unsupported, SVal

S_ = StringSort
I_ = IntSort
B_ = BoolSort

# ---- base64url -------------------------------------------------------------------------------
ASCII_RE = z3.Star(z3.Range(chr(0), chr(127)))
B64U = z3.Function("B64U", S_, S_)                 # RFC 4648 section 5 without padding
PyB64Ok = z3.Function("PyB64Ok", S_, B_)           # base64.b64decode(s, b"-_", validate=True) accepts s
PyB64Dec = z3.Function("PyB64Dec", S_, S_)         # ... and its result
PyB64OkLax = z3.Function("PyB64OkLax", S_, B_)     # same with validate=False
PyB64DecLax = z3.Function("PyB64DecLax", S_, S_)
B64U_ALPHA = z3.Union(z3.Range("A", "Z"), z3.Range("a", "z"), z3.Range("0", "9"), z3.Re("-"), z3.Re("_"))
B64U_RE = z3.Star(B64U_ALPHA)
B64_INPUT_CHARS = z3.Union(B64U_ALPHA, z3.Re("="), z3.Re("+"), z3.Re("/"))


def ref_B64U(b: bytes) -> bytes:
    return _b64.urlsafe_b64encode(b).rstrip(b"=")


def b64u_len(n):
    return (4 * n + 2) / 3


def B64U_app(ctx, x):
    """B64U(x) with its axioms instantiated at x (alphabet, length)."""
    t = B64U(x)
    key = ("B64U", tid(t))
    if key not in ctx.ghost:
        ctx.ghost[key] = t
        ctx.ghost.setdefault("B64U_terms", []).append((x, t))
        ctx.axiom(z3.InRe(t, B64U_RE), "B64U: output over A-Z a-z 0-9 - _ only")
        ctx.axiom(z3.Length(t) == b64u_len(z3.Length(x)), "B64U: |B64U(x)| = ceil(4|x|/3)")
        # consequences of the alphabet axiom, stated explicitly to keep queries out of regex reasoning
        for ch in ("+", "/", "=", ".", " "):
            ctx.axiom(z3.Not(z3.Contains(t, z3.StringVal(ch))), "B64U: output contains no '+', '/', '=', '.', ' '")
        ctx.axiom(z3.Not(z3.SuffixOf(z3.StringVal("="), t)), "B64U: output does not end with '='")
        ctx.axiom(z3.InRe(t, ASCII_RE), "B64U: output is ASCII")
    return t


Rep = z3.Function("Rep", S_, I_, S_)           # text * n


def rep(ctx, text, n):
    """text * n  (n symbolic) with its axioms; `text` is a one-character literal."""
    n = simp(n)
    t = Rep(text, n)
    key = ("rep", tid(t))
    if key not in ctx.ghost:
        ctx.ghost[key] = True
        ctx.axiom(z3.Length(t) == z3.If(n > 0, n, 0) * z3.Length(text), "|text * n| = max(n, 0) * |text|")
        ctx.axiom(z3.InRe(t, z3.Star(z3.Re(text))), "text * n consists of repetitions of text")
    return t


def is_b64u_app(t):
    return z3.is_app(t) and t.decl().eq(B64U)


def b64u_free_of(t, text):
    """Syntactic instance of the B64U alphabet axiom: B64U(x) contains none of + / = . space (nor any non-alphabet text)."""
    from .core import str_value
    if not is_b64u_app(t) or not z3.is_string_value(text):
        return False
    s_ = str_value(text)
    return len(s_) > 0 and any(c not in "ABCDEFGHIJKLMNOPQRSTUVWXYZabcdefghijklmnopqrstuvwxyz0123456789-_" for c in s_)


def is_rep_of(t, ch):
    """Syntactic: t is `ch * n` or a literal made of ch only."""
    from .core import str_value
    if z3.is_string_value(t):
        return set(str_value(t)) <= {ch}
    if z3.is_app(t) and t.decl().eq(Rep) and z3.is_string_value(t.arg(0)) and str_value(t.arg(0)) == ch:
        return True
    return False


def pad_for(ctx, enc):
    """'=' padding CPython's urlsafe_b64encode appends: up to a multiple of four characters."""
    return rep(ctx, z3.StringVal("="), (-z3.Length(enc)) % 4)


# ---- integers <-> octets ----------------------------------------------------------------------
I2OSP = z3.Function("I2OSP", I_, I_, S_)      # big-endian, fixed length (RFC 8017 4.1)
OS2IP = z3.Function("OS2IP", S_, I_)
Pow256 = z3.Function("Pow256", I_, I_)
Pow2 = z3.Function("Pow2", I_, I_)
BitLen = z3.Function("BitLen", I_, I_)
HexPad = z3.Function("HexPad", I_, I_, S_)    # "%0*x" % (width, n)
Hex = z3.Function("Hex", S_, S_)              # binascii.b2a_hex
UnHex = z3.Function("UnHex", S_, S_)          # binascii.a2b_hex
IntToStr = z3.Function("IntToStr", I_, S_)
Zeros = z3.Function("Zeros", I_, S_)
MinBE = z3.Function("MinBE", I_, S_)          # minimal-length unsigned big-endian (RFC 7518 6.3.1)


def ref_I2OSP(n: int, length: int) -> bytes:
    return n.to_bytes(length, "big")


def ref_OS2IP(b: bytes) -> int:
    return int.from_bytes(b, "big")


def ref_MinBE(n: int) -> bytes:
    return n.to_bytes((n.bit_length() + 7) // 8, "big")


def pow2_facts(ctx, e):
    """Ground facts about Pow2 at exponent e (monotonicity is instantiated pairwise by mono())."""
    key = ("pow2", tid(e))
    if key in ctx.ghost:
        return
    ctx.ghost[key] = True
    lst = ctx.ghost.setdefault("pow2_terms", [])
    if z3.is_int_value(e) and 0 <= e.as_long() <= 8192:
        ctx.axiom(Pow2(e) == z3.IntVal(2 ** e.as_long()), "Pow2 at a concrete exponent")
    ctx.axiom(z3.Implies(e >= 0, Pow2(e) >= 1), "Pow2(e) >= 1 for e >= 0")
    ctx.axiom(z3.Implies(e == 0, Pow2(e) == 1), "Pow2(0) = 1")
    for other in lst:
        ctx.axiom(z3.Implies(z3.And(other >= 0, other <= e), Pow2(other) <= Pow2(e)), "Pow2 monotone")
        ctx.axiom(z3.Implies(z3.And(e >= 0, e <= other), Pow2(e) <= Pow2(other)), "Pow2 monotone")
        ctx.axiom(z3.Implies(z3.And(other >= 0, other < e), 2 * Pow2(other) <= Pow2(e)), "Pow2 strictly monotone")
        ctx.axiom(z3.Implies(z3.And(e >= 0, e < other), 2 * Pow2(e) <= Pow2(other)), "Pow2 strictly monotone")
    lst.append(e)


def pow256(ctx, k):
    e = simp(8 * k)
    pow2_facts(ctx, e)
    return Pow2(e)


def bit_length(interp, n):
    ctx = interp.ctx
    bl = BitLen(n)
    key = ("bl", tid(bl))
    if key not in ctx.ghost:
        ctx.ghost[key] = True
        pow2_facts(ctx, simp(bl))
        pow2_facts(ctx, simp(bl - 1))
        an = z3.If(n >= 0, n, -n)
        ctx.axiom(z3.And(bl >= 0, (bl == 0) == (n == 0),
                         z3.Implies(n != 0, z3.And(Pow2(bl - 1) <= an, an < Pow2(bl)))),
                  "int.bit_length: 2^(bl-1) <= |n| < 2^bl, bl = 0 iff n = 0")
    return bl


def int_to_bytes(interp, n, length=None, byteorder="big", *, signed=False):
    """int.to_bytes(length, 'big', signed=False) -> I2OSP; OverflowError outside [0, 256^length)."""
    if byteorder != "big" or signed is not False:
        raise Unsupported("int.to_bytes with byteorder/signed other than big/unsigned")
    if interp.tag(length) not in ("vint", "vbool"):
        interp.raise_(TypeError, "length must be int")
    ln = interp.int_term(length)
    ctx = interp.ctx
    if ctx.branch(ln < 0):
        interp.raise_(ValueError, "length argument must be non-negative")
    if ctx.branch(n < 0):
        interp.raise_(OverflowError, "can't convert negative int to unsigned")
    p = pow256(ctx, ln)
    if ctx.branch(n >= p):
        interp.raise_(OverflowError, "int too big to convert")
    t = I2OSP(n, ln)
    ctx.axiom(z3.Length(t) == ln, "I2OSP: |I2OSP(n, L)| = L")
    ctx.axiom(OS2IP(t) == n, "OS2IP(I2OSP(n, L)) = n for 0 <= n < 256^L")
    # definition of the minimal big-endian form, instantiated at this (n, L)
    ctx.axiom(z3.Implies(z3.And(ln > 0, n >= pow256(ctx, ln - 1)), z3.StrToCode(z3.SubString(t, 0, 1)) > 0),
              "I2OSP(n, L) has a non-zero leading octet when n >= 256^(L-1)")
    ctx.axiom(z3.Implies(z3.Or(ln == 0, n >= pow256(ctx, ln - 1)), MinBE(n) == t),
              "MinBE(n) = I2OSP(n, L) for the unique L with 256^(L-1) <= n < 256^L (L = 0 for n = 0)")
    return interp.mk("vbytes", t)


def int_of_hex(interp, text):
    """int(text, 16) for text produced by Hex()/HexPad(); ValueError on the empty string."""
    ctx = interp.ctx
    t = simp(text)
    if z3.is_app(t) and t.decl().eq(Hex):
        s = t.arg(0)
        if ctx.branch(z3.Length(s) == 0):
            interp.raise_(ValueError, "invalid literal for int() with base 16: ''")
        r = OS2IP(s)
        ctx.axiom(r >= 0, "OS2IP >= 0")
        ctx.axiom(r < pow256(ctx, z3.Length(s)), "OS2IP(s) < 256^|s|")
        return interp.mk("vint", r)
    raise Unsupported("int(text, 16) on text that is not a hex rendering")


# ---- JSON -------------------------------------------------------------------------------------
JSONc = z3.Function("JSONc", PyVal, S_)           # json.dumps(v, ensure_ascii=True, separators=(",", ":")) as text
JSONu = z3.Function("JSONu", PyVal, S_)           # ... ensure_ascii=False
JSONParse = z3.Function("JSONParse", S_, PyVal)   # json.loads on octets/text
JSONOk = z3.Function("JSONOk", S_, B_)
IsJSONValue = z3.Function("IsJSONValue", PyVal, B_)   # value in the JSON data model (finite floats, str keys, no bytes/objects)
IsJSONVals = z3.Function("IsJSONVals", z3.ArraySort(S_, PyVal), B_)   # every present member is a JSON value
UTF8 = z3.Function("UTF8", S_, S_)                # str -> octets
UTF8Dec = z3.Function("UTF8Dec", S_, S_)
UTF8Ok = z3.Function("UTF8Ok", S_, B_)
IsASCII = z3.Function("IsASCII", S_, B_)
ASCII_RE = z3.Star(z3.Range(chr(0), chr(127)))


def ref_JSONc(v) -> str:
    return _json.dumps(v, ensure_ascii=True, separators=(",", ":"))


def ref_JSONParse(b):
    return _json.loads(b)


def is_ascii(ctx, s):
    """ASCII-ness of a text term: decided structurally when every piece of a concatenation is a
    literal or already known to be ASCII (keeps the string solver out of token assembly)."""
    s = simp(s)
    parts = _flatten(s)
    ok = True
    for p in parts:
        if z3.is_string_value(p):
            from .core import str_value
            if all(ord(c) < 128 for c in str_value(p)):
                continue
            return z3.BoolVal(False)
        if ctx.known(z3.InRe(p, ASCII_RE)) or is_rep_of(p, "=") or is_b64u_app(p):
            continue
        ok = False
        break
    if ok:
        return z3.BoolVal(True)
    return z3.InRe(s, ASCII_RE)


def _flatten(t):
    if z3.is_app(t) and t.decl().kind() == z3.Z3_OP_SEQ_CONCAT:
        out = []
        for i in range(t.num_args()):
            out.extend(_flatten(t.arg(i)))
        return out
    return [t]


def utf8_encode(ctx, s):
    """UTF-8 octets of a text string, with axioms instantiated."""
    t = UTF8(s)
    key = ("utf8", tid(t))
    if key not in ctx.ghost:
        ctx.ghost[key] = True
        ctx.axiom(z3.Implies(is_ascii(ctx, s), t == s), "UTF8(s) = s for ASCII s")
        ctx.axiom(z3.And(UTF8Ok(t), UTF8Dec(t) == s), "UTF8Dec(UTF8(s)) = s")
        ctx.axiom(z3.Length(t) >= z3.Length(s), "|UTF8(s)| >= |s|")
        ctx.axiom((z3.Length(t) == 0) == (z3.Length(s) == 0), "UTF8(s) empty iff s empty")
    return t


def utf8_decode(ctx, b):
    t = UTF8Dec(b)
    key = ("utf8dec", tid(t))
    if key not in ctx.ghost:
        ctx.ghost[key] = True
        ctx.axiom(z3.Implies(is_ascii(ctx, b), z3.And(UTF8Ok(b), t == b)), "ASCII octets decode to themselves")
        ctx.axiom(z3.Implies(UTF8Ok(b), UTF8(t) == b), "UTF8(UTF8Dec(b)) = b for well-formed b")
        ctx.add(z3.Implies(z3.And(UTF8Ok(b), z3.InRe(t, ASCII_RE)), z3.And(b == t, z3.InRe(b, ASCII_RE))))
        ctx.axiom(z3.Implies(UTF8Ok(b), z3.And(z3.Length(t) <= z3.Length(b), (z3.Length(t) == 0) == (z3.Length(b) == 0))),
                  "|UTF8Dec(b)| <= |b|")
    return t

HasSurrogate = z3.Function("HasSurrogate", S_, B_)   # text contains a lone surrogate (not UTF-8 encodable)


def surrogate_facts(ctx, s):
    key = ("surr", tid(s))
    if key not in ctx.ghost:
        ctx.ghost[key] = True
        ctx.axiom(z3.Implies(is_ascii(ctx, s), z3.Not(HasSurrogate(s))), "ASCII text has no surrogates")
