"""pyvc.interp -- path-splitting symbolic interpreter for the Python subset used by joserfc.

Function *bodies* are taken from the source text of the working tree (ast, re-read every run);
global names, class objects, registries and algorithm instances are the live objects of the
package imported from that same working tree (closed import-time configuration is evaluated,
not modelled).  Anything outside the subset raises Unsupported (never a violation).
"""
from __future__ import annotations
from .core import tid
import ast
import builtins
import inspect
import os
import sys
import types
import functools

from .core import (z3, PyVal, C, R, A, VABSENT, VNONE, StringSort, IntSort, SeqPV, EMPTY_VALS, lift, lower,
                   simp, head_tag, NotConcrete, mk_bool, mk_int, mk_float, mk_str, mk_bytes, mk_list,
                   mk_dict, mk_obj, is_tag, bytes_to_smt)
from .core import dn as dn_
from .values import (Unsupported, PathKilled, PyRaise, SVal, HObj, HDict, HList, HSet, Foreign, Closure,
                     BoundMethod, BuiltinMethod, ForeignMethod, SuperProxy, DictView, Ctx)

sys.setrecursionlimit(20000)


class _Return(Exception):
    def __init__(self, value):
        self.value = value


class _Break(Exception):
    pass


class _Continue(Exception):
    pass


class Env:
    __slots__ = ("vars", "parent")

    def __init__(self, vars=None, parent=None):
        self.vars = vars if vars is not None else {}
        self.parent = parent

    def lookup(self, name):
        e = self
        while e is not None:
            if name in e.vars:
                return True, e.vars[name]
            e = e.parent
        return False, None


_MISSING = object()
_TRUTH_CACHE = {}

# ---------------------------------------------------------------------------------------------
# source index

_ast_cache = {}


def module_ast(filename):
    if filename not in _ast_cache:
        with open(filename, "r", encoding="utf-8") as f:
            src = f.read()
        tree = ast.parse(src, filename)
        index = {}

        def walk(node, prefix):
            for ch in ast.iter_child_nodes(node):
                if isinstance(ch, (ast.FunctionDef, ast.AsyncFunctionDef)):
                    q = prefix + ch.name
                    index.setdefault(q, []).append(ch)
                    walk(ch, q + ".<locals>.")
                elif isinstance(ch, ast.ClassDef):
                    walk(ch, prefix + ch.name + ".")
                elif isinstance(ch, (ast.If, ast.Try, ast.For, ast.While, ast.With)):
                    walk(ch, prefix)
        walk(tree, "")
        _ast_cache[filename] = (tree, index, src)
    return _ast_cache[filename]


def function_ast(fn):
    """FunctionDef node of a live Python function (from the file it was compiled from)."""
    code = fn.__code__
    filename = code.co_filename
    tree, index, _ = module_ast(filename)
    cands = index.get(fn.__qualname__, [])
    if not cands and fn.__name__ == "<lambda>":
        lams = [n for n in ast.walk(tree) if isinstance(n, ast.Lambda) and n.lineno <= code.co_firstlineno <= (n.end_lineno or n.lineno)
                and n.lineno == code.co_firstlineno]
        if len(lams) == 1:
            return lams[0]
        for n in lams:
            try:
                c = compile(ast.Expression(body=n), filename, "eval")
                lam_code = [k for k in c.co_consts if hasattr(k, "co_code")]
                if lam_code and lam_code[0].co_code == code.co_code and lam_code[0].co_consts == code.co_consts:
                    return n
            except Exception:
                pass
        raise Unsupported("cannot locate the source of a lambda at %s:%d" % (filename, code.co_firstlineno))
    if not cands:
        raise Unsupported("no source for %s" % fn.__qualname__)
    for n in cands:
        first = n.decorator_list[0].lineno if n.decorator_list else n.lineno
        if first == code.co_firstlineno or n.lineno == code.co_firstlineno:
            return n
    return cands[-1]


# ---------------------------------------------------------------------------------------------

class Config:
    def __init__(self):
        self.interp_prefixes = ("joserfc",)   # modules whose python functions are interpreted from source
        self.stubs = {}              # id(live callable) -> (callable, stub)
        self.foreign_methods = {}    # (kind, name) -> stub(interp, recv, args, kwargs)
        self.foreign_attrs = {}      # (kind, name) -> fn(interp, recv)
        self.isinstance_foreign = {}  # live class -> fn(interp, foreign) -> Bool term/bool
        self.foreign_real_class = {}  # foreign kind -> the real class it stands for (closed member set)
        self.contracts = {}          # qualified name -> contract object
        self.merge_calls = set()     # qualified names whose call outcomes are merged (pure, void)
        self.inline_native = set()   # ids of live callables executed natively on concrete args
        self.class_hooks = {}        # live class -> constructor stub
        self.classmethod_stubs = {}  # (live class, method name) -> stub(interp, *args)

    def stub(self, live):
        def deco(f):
            self.stubs[id(live)] = (live, f)
            return f
        return deco


class Interp:
    def __init__(self, ctx: Ctx, config: Config):
        self.ctx = ctx
        self.cfg = config
        self.call_stack = []
        self.native_mode = False

    # ---- helpers ------------------------------------------------------------------------
    def unsupported(self, msg, node=None):
        where = ""
        if node is not None and hasattr(node, "lineno"):
            where = " (line %d)" % node.lineno
        fn = self.call_stack[-1] if self.call_stack else "?"
        raise Unsupported("%s%s in %s" % (msg, where, fn))

    def raise_(self, exc_cls, *args):
        raise PyRaise(self.make_exc(exc_cls, args))

    def make_exc(self, exc_cls, args=()):
        e = HObj(exc_cls)
        e.attrs["args"] = tuple(args)
        e.attrs["__site__"] = list(self.call_stack[-4:])
        return e

    # ---- live value wrapping ------------------------------------------------------------
    def is_interp_module(self, modname):
        return bool(modname) and any(modname == p or modname.startswith(p + ".") for p in self.cfg.interp_prefixes)

    def is_repo_instance(self, v):
        cls = type(v)
        if cls.__module__ in ("builtins",):
            return False
        return self.is_interp_module(getattr(cls, "__module__", "")) and not isinstance(v, type)

    def wrap_live(self, v):
        """Live python value (read from a module / class / instance) -> interpreter value."""
        if v is None or isinstance(v, (bool, int, float, str, bytes)):
            return v
        if isinstance(v, (SVal, HObj, HDict, HList, HSet, Foreign, Closure, BoundMethod)):
            return v
        if isinstance(v, tuple):
            return tuple(self.wrap_live(x) for x in v)
        if isinstance(v, dict) and type(v).__module__ in ("builtins", "collections"):
            w = self.ctx.live_wrap.get(id(v))
            if w is None:
                w = HDict(py={k: self.wrap_live(x) for k, x in v.items()}, pre_existing=True)
                w.label = "live-dict"
                self.ctx.live_wrap[id(v)] = w
                self.ctx.live_keep.append(v)
            return w
        if isinstance(v, list):
            w = self.ctx.live_wrap.get(id(v))
            if w is None:
                w = HList(items=[self.wrap_live(x) for x in v], pre_existing=True)
                w.label = "live-list"
                self.ctx.live_wrap[id(v)] = w
                self.ctx.live_keep.append(v)
            return w
        if isinstance(v, (set, frozenset)):
            w = self.ctx.live_wrap.get(id(v))
            if w is None:
                w = HSet(elems=[self.wrap_live(x) for x in v], pre_existing=True)
                self.ctx.live_wrap[id(v)] = w
                self.ctx.live_keep.append(v)
            return w
        return v

    # ---- symbolic value helpers ---------------------------------------------------------
    def term_of(self, v):
        """Interpreter value -> PyVal term (for storing into symbolic containers / comparing)."""
        if isinstance(v, SVal):
            return v.t
        if isinstance(v, HDict):
            if v.mode == "s":
                return self.ctx.dict_term(v.vals, v.n)
            vals = EMPTY_VALS
            for k, x in v.py.items():
                vals = z3.Store(vals, z3.StringVal(k), self.term_of(x))
            return self.ctx.dict_term(vals, z3.IntVal(len(v.py)))
        if isinstance(v, HList):
            if v.mode == "s":
                return mk_list(v.seq)
            return mk_list(self.seq_of([self.term_of(x) for x in v.items]))
        if isinstance(v, tuple):
            return mk_list(self.seq_of([self.term_of(x) for x in v]))
        if isinstance(v, (HObj, Foreign)):
            return mk_obj(z3.IntVal(v.oid))
        try:
            return lift(v)
        except TypeError:
            pass
        if self.is_repo_instance(v):
            return mk_obj(z3.IntVal(self.live_oid(v)))
        raise Unsupported("cannot make a term of %r" % (type(v),))

    def live_oid(self, v):
        return 10_000_000 + (id(v) % 1_000_000_000)

    @staticmethod
    def seq_of(terms):
        if not terms:
            return z3.Empty(SeqPV)
        units = [z3.Unit(t) for t in terms]
        if len(units) == 1:
            return units[0]
        return z3.Concat(*units)

    def from_term(self, t):
        """PyVal term -> interpreter value (concrete python value when the term is a literal)."""
        t = simp(t)
        try:
            v = lower(t)
            if isinstance(v, (dict, list)):
                return SVal(t)
            return v
        except NotConcrete:
            return SVal(t)

    def tag(self, v):
        """Tag of an interpreter value; forks on SVal terms of unknown tag."""
        if isinstance(v, SVal):
            ht = head_tag(v.t)
            if ht is not None:
                return ht
            key = tid(v.t)
            k = self.ctx.known_tags.get(key)
            if k is not None:
                return k
            names = ["vnone", "vbool", "vint", "vfloat", "vstr", "vbytes", "vlist", "vdict"]
            # values whose constructor is not syntactically known are data (JSON model + bytes); heap
            # objects are tracked concretely and reach terms only through explicit vobj(id) constructors
            self.ctx.axiom(z3.Not(z3.Or(is_tag(v.t, "vobj"), is_tag(v.t, "vabsent"))),
                           "symbolic data values are not object references")
            idx = self.ctx.choose([is_tag(v.t, n) for n in names])
            self.ctx.known_tags[key] = names[idx]
            return names[idx]
        if v is None:
            return "vnone"
        if isinstance(v, bool):
            return "vbool"
        if isinstance(v, int):
            return "vint"
        if isinstance(v, float):
            return "vfloat"
        if isinstance(v, str):
            return "vstr"
        if isinstance(v, bytes):
            return "vbytes"
        if isinstance(v, (HList,)):
            return "vlist"
        if isinstance(v, tuple):
            return "vtuple"
        if isinstance(v, HDict):
            return "vdict"
        if isinstance(v, HSet):
            return "vset"
        return "vobj"

    def is_tag_term(self, v, tags):
        """Bool term / python bool: value has one of the tags (no forking)."""
        if isinstance(v, SVal):
            ht = head_tag(v.t)
            if ht is not None:
                return ht in tags
            k = self.ctx.known_tags.get(tid(v.t))
            if k is not None:
                return k in tags
            return simp(z3.Or(*[is_tag(v.t, n) for n in tags]))
        return self.tag(v) in tags

    def know_tag(self, v, tag):
        if isinstance(v, SVal) and head_tag(v.t) is None:
            self.ctx.known_tags[tid(v.t)] = tag

    # typed accessors (the caller has established the tag)
    def int_term(self, v):
        if isinstance(v, bool):
            return z3.IntVal(int(v))
        if isinstance(v, int):
            return z3.IntVal(v)
        if isinstance(v, SVal):
            tg = self.tag(v)
            if tg == "vint":
                return simp(A["i"](v.t))
            if tg == "vbool":
                return simp(z3.If(A["b"](v.t), z3.IntVal(1), z3.IntVal(0)))
        raise Unsupported("int_term of %r" % (v,))

    def real_term(self, v):
        if isinstance(v, float):
            return A["r"](lift(v))
        if isinstance(v, SVal) and self.tag(v) == "vfloat":
            return simp(A["r"](v.t))
        return z3.ToReal(self.int_term(v))

    def str_term(self, v):
        if isinstance(v, str):
            return z3.StringVal(v)
        if isinstance(v, SVal):
            return simp(A["s"](v.t))
        raise Unsupported("str_term of %r" % (v,))

    def bytes_term(self, v):
        if isinstance(v, bytes):
            return bytes_to_smt(v)
        if isinstance(v, SVal):
            return simp(A["y"](v.t))
        raise Unsupported("bytes_term of %r" % (v,))

    def text_term(self, v):
        """String term of a str or bytes value."""
        tg = self.tag(v)
        if tg == "vstr":
            return self.str_term(v)
        if tg == "vbytes":
            return self.bytes_term(v)
        raise Unsupported("text_term of %r" % (v,))

    def mk(self, tag, term):
        return self.from_term(C[tag](term))

    def dict_wf(self, t):
        """Datatype invariant of a dict-valued term (assumed once per term and path): size >= 0 and a
        non-empty dict has a (witness) key.  The converse (a present key makes the size positive) is
        instantiated at every membership test (builtins_impl.present_term)."""
        key = tid(t)
        if key in self.ctx.wf_done:
            return
        self.ctx.wf_done.add(key)
        vals, n = self.ctx.dict_view(t)
        wit = z3.Function("dict_witness", PyVal, StringSort)
        body = z3.And(n >= 0, z3.Implies(n > 0, z3.Select(vals, wit(t)) != VABSENT))
        self.ctx.axiom(z3.Implies(is_tag(t, "vdict"), body), "datatype-invariant: dict size n >= 0, n > 0 => some key present")

    # ---- truthiness, equality -----------------------------------------------------------
    def truth_term(self, v):
        """Python truthiness as Bool term or python bool (no forking except __bool__ calls)."""
        if isinstance(v, SVal):
            t = v.t
            ht = head_tag(t)
            if ht is None or ht == "vdict":
                self.dict_wf(t)
            cached = _TRUTH_CACHE.get(tid(t))
            if cached is not None:
                return cached
            parts = [
                z3.And(is_tag(t, "vbool"), A["b"](t)),
                z3.And(is_tag(t, "vint"), A["i"](t) != 0),
                z3.And(is_tag(t, "vfloat"), A["r"](t) != 0),
                z3.And(is_tag(t, "vstr"), z3.Length(A["s"](t)) > 0),
                z3.And(is_tag(t, "vbytes"), z3.Length(A["y"](t)) > 0),
                z3.And(is_tag(t, "vlist"), z3.Length(A["l"](t)) > 0),
                z3.And(is_tag(t, "vdict"), dn_(t) > 0),
                is_tag(t, "vobj"),
            ]
            r = simp(z3.Or(*parts))
            _TRUTH_CACHE[tid(t)] = r
            return r
        if isinstance(v, HDict):
            if v.mode == "c":
                return len(v.py) > 0
            self.dict_wf(self.ctx.dict_term(v.vals, v.n))
            return simp(v.n > 0)
        if isinstance(v, HList):
            if v.mode == "c":
                return len(v.items) > 0
            return simp(z3.Length(v.seq) > 0)
        if isinstance(v, HSet):
            if v.mode == "c":
                return len(v.elems) > 0
            k = self.ctx.fresh("k!nonempty", StringSort)
            kk = z3.Const("k!set", StringSort)
            # truthiness of a predicate set: exists k. pred[k]
            return z3.Exists([kk], z3.Select(v.pred, kk))
        if isinstance(v, HObj):
            f = self.class_lookup(v.cls, "__bool__")
            if f is not _MISSING:
                return self.truth_term(self.call(self.bind(f, v, v.cls), [], {}))
            f = self.class_lookup(v.cls, "__len__")
            if f is not _MISSING:
                n = self.call(self.bind(f, v, v.cls), [], {})
                return self.truth_term(n)
            return True
        if isinstance(v, (Foreign, Closure, BoundMethod, BuiltinMethod, types.FunctionType, type)):
            return True
        if isinstance(v, tuple):
            return len(v) > 0
        if self.is_repo_instance(v):
            f = self.class_lookup(type(v), "__bool__")
            if f is not _MISSING:
                return self.truth_term(self.call(self.bind(f, v, type(v)), [], {}))
            return True
        try:
            return bool(v)
        except Exception:
            raise Unsupported("truthiness of %r" % (type(v),))

    def truthy(self, v):
        return self.ctx.branch(self.truth_term(v))

    def num_term(self, t):
        return z3.If(is_tag(t, "vbool"), z3.If(A["b"](t), z3.RealVal(1), z3.RealVal(0)),
                     z3.If(is_tag(t, "vint"), z3.ToReal(A["i"](t)), A["r"](t)))

    def is_num(self, t):
        return z3.Or(is_tag(t, "vbool"), is_tag(t, "vint"), is_tag(t, "vfloat"))

    def eq_term(self, a, b):
        """Python == as Bool term / python bool."""
        if isinstance(a, (HObj, Foreign)) or isinstance(b, (HObj, Foreign)):
            for x in (a, b):
                if isinstance(x, HObj) and self.class_lookup(x.cls, "__eq__") is not _MISSING:
                    raise Unsupported("__eq__ overloading")
            return a is b
        sa = isinstance(a, (SVal, HDict, HList))
        sb = isinstance(b, (SVal, HDict, HList))
        if not sa and not sb:
            if isinstance(a, tuple) or isinstance(b, tuple):
                if not (isinstance(a, tuple) and isinstance(b, tuple)) or len(a) != len(b):
                    return False
                parts = [self.eq_term(x, y) for x, y in zip(a, b)]
                if all(isinstance(p, bool) for p in parts):
                    return all(parts)
                return simp(z3.And(*[p if not isinstance(p, bool) else z3.BoolVal(p) for p in parts]))
            try:
                return bool(a == b)
            except Exception:
                raise Unsupported("== on %r, %r" % (type(a), type(b)))
        if isinstance(a, (HDict, HList)) and a is b:
            return True
        try:
            ta = self.term_of(a)
            tb = self.term_of(b)
        except Unsupported:
            return False if not (sa and sb) else self.unsupported("== on non-term values")
        e = z3.Or(ta == tb, z3.And(self.is_num(ta), self.is_num(tb), self.num_term(ta) == self.num_term(tb)))
        return simp(e)

    # ---- attribute access ---------------------------------------------------------------
    def class_lookup(self, cls, name):
        for k in cls.__mro__:
            if name in k.__dict__:
                if k is object and name in ("__eq__", "__init__", "__bool__", "__len__", "__hash__", "__ne__"):
                    return _MISSING
                return k.__dict__[name]
        return _MISSING

    def class_lookup_after(self, cls, after, name):
        mro = cls.__mro__
        i = mro.index(after) + 1
        for k in mro[i:]:
            if name in k.__dict__:
                return k.__dict__[name], k
        return _MISSING, None

    def bind(self, raw, recv, cls):
        """Bind a raw class-dict entry to a receiver (instance or class)."""
        if isinstance(raw, staticmethod):
            return self.wrap_live(raw.__func__)
        if isinstance(raw, classmethod):
            return BoundMethod(raw.__func__, cls)
        if isinstance(raw, types.FunctionType):
            if recv is None or recv is cls:
                return raw     # accessed on the class: plain function
            return BoundMethod(raw, recv)
        if isinstance(raw, property):
            if recv is None or recv is cls:
                return raw
            return self.call(BoundMethod(raw.fget, recv), [], {})
        if isinstance(raw, functools.cached_property):
            if recv is None or recv is cls:
                return raw
            v = self.call(BoundMethod(raw.func, recv), [], {})
            self.set_attr(recv, raw.attrname or raw.func.__name__, v, lazy=True)
            return v
        return self.wrap_live(raw)

    def get_attr(self, obj, name, node=None):
        r = self.get_attr_opt(obj, name)
        if r is _MISSING:
            self.raise_(AttributeError, "%s" % name)
        return r

    def get_attr_opt(self, obj, name):
        ctx = self.ctx
        if isinstance(obj, HObj):
            if name in obj.attrs:
                return obj.attrs[name]
            if name == "__class__":
                return obj.cls
            raw = self.class_lookup(obj.cls, name)
            if raw is _MISSING:
                if name == "__dict__":
                    return HDict(py=dict(obj.attrs))
                return _MISSING
            return self.bind(raw, obj, obj.cls)
        if isinstance(obj, (SVal, str, bytes, int, float, HDict, HList, HSet, tuple)):
            return BuiltinMethod(obj, name)
        if obj is None:
            return _MISSING
        if isinstance(obj, Foreign):
            fa = self.cfg.foreign_attrs.get((obj.kind, name))
            if fa is not None:
                return fa(self, obj)
            if (obj.kind, name) in self.cfg.foreign_methods:
                return ForeignMethod(obj, name)
            if name in obj.f:
                return obj.f[name]
            real = self.cfg.foreign_real_class.get(obj.kind)
            if real is not None and not hasattr(real, name):
                return _MISSING
            raise Unsupported("attribute %s of foreign %s" % (name, obj.kind))
        if isinstance(obj, SuperProxy):
            raw, k = self.class_lookup_after(obj.obj.cls if isinstance(obj.obj, HObj) else (obj.obj if isinstance(obj.obj, type) else type(obj.obj)), obj.after_cls, name)
            if raw is _MISSING:
                return _MISSING
            if isinstance(obj.obj, type):
                return self.bind(raw, obj.obj, obj.obj)
            cls = obj.obj.cls if isinstance(obj.obj, HObj) else type(obj.obj)
            if raw is object.__init__ or (k is not None and k.__module__ == "builtins"):
                return BuiltinMethod(obj.obj, "super." + name)
            return self.bind(raw, obj.obj, cls)
        if isinstance(obj, DictView):
            return BuiltinMethod(obj, name)
        if isinstance(obj, types.ModuleType):
            try:
                return self.wrap_live(getattr(obj, name))
            except AttributeError:
                return _MISSING
        if isinstance(obj, type):
            key = (id(obj), name)
            if key in ctx.overlay:
                return ctx.overlay[key]
            raw = self.class_lookup(obj, name)
            if raw is _MISSING:
                try:
                    return self.wrap_live(getattr(obj, name))
                except AttributeError:
                    return _MISSING
            return self.bind(raw, obj, obj)
        if self.is_repo_instance(obj):
            key = (id(obj), name)
            if key in ctx.overlay:
                return ctx.overlay[key]
            d = getattr(obj, "__dict__", {})
            if name in d:
                return self.wrap_live(d[name])
            raw = self.class_lookup(type(obj), name)
            if raw is _MISSING:
                return _MISSING
            return self.bind(raw, obj, type(obj))
        if isinstance(obj, (Closure, BoundMethod, types.FunctionType)):
            if name == "__name__":
                return getattr(obj, "qualname", getattr(obj, "__name__", "f"))
            return _MISSING
        # other live foreign object: plain attribute read of simple data
        try:
            v = getattr(obj, name)
        except AttributeError:
            return _MISSING
        except Exception:
            raise Unsupported("attribute %s of %r" % (name, type(obj)))
        return self.wrap_live(v)

    def note_write(self, target, what, value=None):
        """Record a heap write; writes to pre-existing (shared) objects matter for C05/C20."""
        pre = getattr(target, "pre_existing", None)
        if pre is None:
            pre = True      # live object
        if self.ctx.frozen and (pre or getattr(target, "oid", 0) < self.ctx.freeze_marks[-1]):
            raise Unsupported("impure: heap write inside a summarized region")
        self.ctx.writes.append((target, what, value, pre, list(self.call_stack[-3:])))

    def set_attr(self, obj, name, value, lazy=False):
        if isinstance(obj, HObj):
            self.note_write(obj, ("attr", name, lazy), value)
            obj.attrs[name] = value
            return
        if isinstance(obj, Foreign):
            self.note_write(obj, ("attr", name, lazy), value)
            obj.f[name] = value
            return
        if isinstance(obj, type) or self.is_repo_instance(obj):
            self.note_write(obj, ("attr", name, lazy), value)
            self.ctx.overlay[(id(obj), name)] = value
            self.ctx.live_keep.append(obj)
            return
        raise Unsupported("attribute store on %r" % (type(obj),))

    # ---- calls --------------------------------------------------------------------------
    def closure_of_live(self, fn):
        node = function_ast(fn)
        env = None
        if fn.__closure__:
            vars_ = {}
            for nm, cell in zip(fn.__code__.co_freevars, fn.__closure__):
                try:
                    vars_[nm] = self.wrap_live(cell.cell_contents)
                except ValueError:
                    pass
            env = Env(vars_)
        cls_ctx = None
        qn = fn.__qualname__
        if "." in qn and "<locals>" not in qn:
            cname = qn.rsplit(".", 1)[0]
            o = fn.__globals__.get(cname.split(".")[0])
            for part in cname.split(".")[1:]:
                o = getattr(o, part, None)
            if isinstance(o, type):
                cls_ctx = o
        return Closure(node, env, fn.__globals__, cls_ctx, fn.__module__ + "." + qn,
                       defaults=tuple(self.wrap_live(d) for d in (fn.__defaults__ or ())),
                       kwdefaults={k: self.wrap_live(v) for k, v in (fn.__kwdefaults__ or {}).items()}, live=fn)

    def call(self, f, args, kwargs, node=None):
        cfg = self.cfg
        if isinstance(f, BoundMethod):
            if isinstance(f.recv, type) and cfg.classmethod_stubs:
                nm = getattr(f.func, "__name__", None)
                for k in f.recv.__mro__:
                    cs = cfg.classmethod_stubs.get((k, nm))
                    if cs is not None:
                        return cs(self, *args, **kwargs)
            return self.call(f.func, [f.recv] + list(args), kwargs, node)
        if isinstance(f, Closure):
            return self.call_closure(f, args, kwargs)
        if isinstance(f, BuiltinMethod):
            from . import builtins_impl
            return builtins_impl.call_method(self, f.recv, f.name, args, kwargs)
        if isinstance(f, ForeignMethod):
            return cfg.foreign_methods[(f.recv.kind, f.name)](self, f.recv, args, kwargs)
        st = cfg.stubs.get(id(f))
        if st is not None and st[0] is f:
            return st[1](self, *args, **kwargs)
        if isinstance(f, (types.MethodType, types.BuiltinMethodType)) and isinstance(getattr(f, "__self__", None), type):
            cs = cfg.classmethod_stubs.get((f.__self__, f.__name__))
            if cs is not None:
                return cs(self, *args, **kwargs)
        if isinstance(f, types.MethodType):
            return self.call(f.__func__, [self.wrap_live(f.__self__)] + list(args), kwargs, node)
        if isinstance(f, types.FunctionType):
            if self.is_interp_module(f.__module__):
                return self.call_closure(self.closure_of_live(f), args, kwargs)
            raise Unsupported("call of external function %s.%s without a trusted contract" % (f.__module__, f.__qualname__))
        if isinstance(f, type):
            return self.instantiate(f, args, kwargs)
        if isinstance(f, functools.partial):
            raise Unsupported("functools.partial")
        if isinstance(f, types.BuiltinMethodType) and type(getattr(f, "__self__", None)).__name__ == "Pattern":
            pm = getattr(cfg, "pattern_match", None)
            if pm is not None and f.__name__ == "match":
                return pm(self, f.__self__, args, kwargs)
            raise Unsupported("re.Pattern.%s" % f.__name__)
        from . import builtins_impl
        return builtins_impl.call_builtin(self, f, args, kwargs)

    def instantiate(self, cls, args, kwargs):
        hook = self.cfg.class_hooks.get(cls)
        if hook is not None:
            return hook(self, *args, **kwargs)
        if issubclass(cls, BaseException) or self.is_interp_module(cls.__module__):
            obj = HObj(cls)
            if issubclass(cls, BaseException):
                obj.attrs["args"] = tuple(args)
            init = self.class_lookup(cls, "__init__")
            if init is not _MISSING and isinstance(init, types.FunctionType):
                if self.is_interp_module(init.__module__):
                    self.call(BoundMethod(init, obj), args, kwargs)
                else:
                    raise Unsupported("__init__ of %s is external" % cls)
            elif init is not _MISSING and not issubclass(cls, BaseException):
                raise Unsupported("__init__ of %s" % cls)
            elif init is _MISSING and (args or kwargs) and not issubclass(cls, BaseException):
                self.raise_(TypeError, "takes no arguments")
            return obj
        from . import builtins_impl
        return builtins_impl.call_builtin(self, cls, args, kwargs)

    def bind_args(self, clo, args, kwargs):
        a = clo.node.args
        params = [p.arg for p in a.posonlyargs + a.args]
        env = {}
        args = list(args)
        kwargs = dict(kwargs) if not isinstance(kwargs, HDict) else kwargs
        npos = len(params)
        if len(args) > npos:
            if a.vararg is None:
                self.raise_(TypeError, "too many positional arguments")
            env[a.vararg.arg] = tuple(args[npos:])
            args = args[:npos]
        elif a.vararg is not None:
            env[a.vararg.arg] = ()
        for p, v in zip(params, args):
            env[p] = v
        sym_kwargs = None
        if isinstance(kwargs, HDict):
            sym_kwargs = kwargs
            kwargs = {}
        defaults = clo.defaults
        ndef = len(defaults)
        for i, p in enumerate(params):
            if p in env:
                if p in kwargs:
                    self.raise_(TypeError, "multiple values for argument %s" % p)
                continue
            if p in kwargs:
                env[p] = kwargs.pop(p)
            else:
                di = i - (npos - ndef)
                if di >= 0:
                    env[p] = defaults[di]
                else:
                    self.raise_(TypeError, "missing argument %s" % p)
        for i, p in enumerate(a.kwonlyargs):
            if p.arg in kwargs:
                env[p.arg] = kwargs.pop(p.arg)
            elif p.arg in clo.kwdefaults:
                env[p.arg] = clo.kwdefaults[p.arg]
            else:
                self.raise_(TypeError, "missing keyword argument %s" % p.arg)
        if a.kwarg is not None:
            if sym_kwargs is not None:
                # symbolic **kwargs: assumed not to name a declared parameter (recorded precondition)
                for p in params + [k.arg for k in a.kwonlyargs]:
                    if p == "self":
                        continue
                    from . import builtins_impl
                    self.ctx.add(z3.Not(builtins_impl.dict_has_term(self, sym_kwargs, p)))
                d = HDict(vals=sym_kwargs.vals, n=sym_kwargs.n) if sym_kwargs.mode == "s" else HDict(py=dict(sym_kwargs.py))
                env[a.kwarg.arg] = d
            else:
                env[a.kwarg.arg] = HDict(py=dict(kwargs))
        elif kwargs:
            self.raise_(TypeError, "unexpected keyword argument %s" % list(kwargs)[0])
        elif sym_kwargs is not None:
            raise Unsupported("symbolic **kwargs into a function without **kwargs")
        return env

    def call_closure(self, clo, args, kwargs):
        qn = clo.qualname
        if self.ctx.opaque_specs and clo.live is not None and getattr(clo.live, "__specfn__", False):
            from . import contracts
            return contracts.spec_apply(self, clo.live, list(args))
        contract = self.cfg.contracts.get(qn)
        if contract is not None:
            from . import contracts
            return contracts.apply_contract(self, contract, clo, args, kwargs)
        if qn in self.cfg.merge_calls and not self.ctx.frozen:
            from . import summarize
            return summarize.merged_call(self, clo, args, kwargs)
        return self.run_closure(clo, args, kwargs)

    def run_closure(self, clo, args, kwargs):
        if isinstance(clo.node, ast.Lambda):
            env = Env(self.bind_args(clo, args, kwargs), clo.env)
            frame = Frame(env, clo)
            return self.eval(clo.node.body, frame)
        env = Env(self.bind_args(clo, args, kwargs), clo.env)
        frame = Frame(env, clo)
        self.call_stack.append(clo.qualname)
        if len(self.call_stack) > 200:
            raise Unsupported("call depth")
        try:
            self.exec_block(clo.node.body, frame)
            return None
        except _Return as r:
            return r.value
        finally:
            self.call_stack.pop()

    # ---- statements ---------------------------------------------------------------------
    def exec_block(self, stmts, frame):
        for s in stmts:
            self.exec_stmt(s, frame)

    def exec_stmt(self, s, frame):
        m = getattr(self, "st_" + type(s).__name__, None)
        if m is None:
            self.unsupported("statement %s" % type(s).__name__, s)
        return m(s, frame)

    def st_Expr(self, s, frame):
        if isinstance(s.value, ast.Constant):
            return
        self.eval(s.value, frame)

    def st_Pass(self, s, frame):
        return

    def st_Return(self, s, frame):
        raise _Return(self.eval(s.value, frame) if s.value is not None else None)

    def st_Break(self, s, frame):
        raise _Break()

    def st_Continue(self, s, frame):
        raise _Continue()

    def st_Assign(self, s, frame):
        v = self.eval(s.value, frame)
        for t in s.targets:
            self.assign(t, v, frame)

    def st_AnnAssign(self, s, frame):
        if s.value is None:
            return
        self.assign(s.target, self.eval(s.value, frame), frame)

    def st_AugAssign(self, s, frame):
        if isinstance(s.target, ast.Name):
            cur = self.eval(ast.Name(id=s.target.id, ctx=ast.Load()), frame)
        else:
            cur = self.eval(_as_load(s.target), frame)
        if isinstance(cur, (HList, HDict, HSet)):
            self.unsupported("augmented assignment on a mutable container", s)
        rhs = self.eval(s.value, frame)
        from . import ops
        v = ops.binop(self, type(s.op).__name__, cur, rhs)
        self.assign(s.target, v, frame)

    def assign(self, target, v, frame):
        if isinstance(target, ast.Name):
            frame.env.vars[target.id] = v
        elif isinstance(target, (ast.Tuple, ast.List)):
            items = self.unpack(v, len(target.elts))
            for t, x in zip(target.elts, items):
                self.assign(t, x, frame)
        elif isinstance(target, ast.Attribute):
            obj = self.eval(target.value, frame)
            self.set_attr(obj, self.mangle(target.attr, frame), v)
        elif isinstance(target, ast.Subscript):
            obj = self.eval(target.value, frame)
            key = self.eval(target.slice, frame)
            from . import builtins_impl
            builtins_impl.setitem(self, obj, key, v)
        else:
            self.unsupported("assignment target", target)

    def unpack(self, v, n):
        if isinstance(v, tuple):
            items = list(v)
        elif isinstance(v, HList) and v.mode == "c":
            items = list(v.items)
        elif isinstance(v, HList):
            ln = z3.Length(v.seq)
            if not self.ctx.branch(ln == n):
                self.raise_(ValueError, "unpack")
            items = [self.from_term(v.seq[i]) for i in range(n)]
        else:
            raise Unsupported("unpacking %r" % (type(v),))
        if len(items) != n:
            self.raise_(ValueError, "not enough/too many values to unpack")
        return items

    def st_If(self, s, frame):
        if self.truthy(self.eval(s.test, frame)):
            self.exec_block(s.body, frame)
        else:
            self.exec_block(s.orelse, frame)

    def st_Raise(self, s, frame):
        if s.exc is None:
            cur = frame.handling[-1] if frame.handling else None
            if cur is None:
                self.raise_(RuntimeError, "No active exception to re-raise")
            raise PyRaise(cur)
        e = self.eval(s.exc, frame)
        if isinstance(e, type) and issubclass(e, BaseException):
            e = self.instantiate(e, [], {})
        if not isinstance(e, HObj):
            self.unsupported("raise of non-exception", s)
        raise PyRaise(e)

    def st_Assert(self, s, frame):
        if not self.truthy(self.eval(s.test, frame)):
            self.raise_(AssertionError)

    def st_Delete(self, s, frame):
        from . import builtins_impl
        for t in s.targets:
            if isinstance(t, ast.Subscript):
                obj = self.eval(t.value, frame)
                key = self.eval(t.slice, frame)
                builtins_impl.delitem(self, obj, key)
            elif isinstance(t, ast.Name):
                frame.env.vars.pop(t.id, None)
            else:
                self.unsupported("del target", t)

    def exc_matches(self, exc, handler_type):
        if isinstance(handler_type, tuple):
            return any(self.exc_matches(exc, h) for h in handler_type)
        if not isinstance(handler_type, type):
            raise Unsupported("except clause with non-class")
        return issubclass(exc.cls, handler_type)

    def st_Try(self, s, frame):
        try:
            try:
                self.exec_block(s.body, frame)
            except PyRaise as pr:
                exc = pr.exc
                for h in s.handlers:
                    if h.type is None or self.exc_matches(exc, self.eval(h.type, frame)):
                        if h.name:
                            frame.env.vars[h.name] = exc
                        frame.handling.append(exc)
                        try:
                            self.exec_block(h.body, frame)
                        finally:
                            frame.handling.pop()
                            if h.name:
                                frame.env.vars.pop(h.name, None)
                        break
                else:
                    raise
            else:
                self.exec_block(s.orelse, frame)
        finally:
            if s.finalbody:
                self.exec_block(s.finalbody, frame)

    def st_FunctionDef(self, s, frame):
        defaults = tuple(self.eval(d, frame) for d in s.args.defaults)
        kwdefaults = {k.arg: self.eval(d, frame) for k, d in zip(s.args.kwonlyargs, s.args.kw_defaults) if d is not None}
        clo = Closure(s, frame.env, frame.clo.glob, frame.clo.cls_ctx,
                      frame.clo.qualname + ".<locals>." + s.name, defaults, kwdefaults)
        if s.decorator_list:
            self.unsupported("decorated nested function", s)
        frame.env.vars[s.name] = clo

    def st_For(self, s, frame):
        from . import loops
        loops.exec_for(self, s, frame)

    def st_While(self, s, frame):
        from . import loops
        loops.exec_while(self, s, frame)

    def st_Import(self, s, frame):
        for a in s.names:
            mod = __import__(a.name)
            frame.env.vars[(a.asname or a.name).split(".")[0]] = mod

    def st_ImportFrom(self, s, frame):
        import importlib
        pkg = frame.clo.glob.get("__package__") or frame.clo.glob.get("__name__", "").rpartition(".")[0]
        name = ("." * s.level) + (s.module or "")
        mod = importlib.import_module(name, pkg) if s.level else importlib.import_module(s.module)
        for a in s.names:
            frame.env.vars[a.asname or a.name] = self.wrap_live(getattr(mod, a.name))

    def st_Global(self, s, frame):
        self.unsupported("global statement", s)

    def st_Nonlocal(self, s, frame):
        self.unsupported("nonlocal statement", s)

    def st_With(self, s, frame):
        self.unsupported("with statement", s)

    # ---- expressions --------------------------------------------------------------------
    def mangle(self, name, frame):
        if name.startswith("__") and not name.endswith("__") and frame.clo.cls_ctx is not None:
            return "_" + frame.clo.cls_ctx.__name__.lstrip("_") + name
        return name

    def eval(self, e, frame):
        m = getattr(self, "ex_" + type(e).__name__, None)
        if m is None:
            self.unsupported("expression %s" % type(e).__name__, e)
        return m(e, frame)

    def ex_Constant(self, e, frame):
        return e.value

    def ex_Name(self, e, frame):
        name = self.mangle(e.id, frame)
        ok, v = frame.env.lookup(name)
        if ok:
            if type(v).__name__ == "Poison":
                self.unsupported("read of a variable assigned in a generically treated loop body", e)
            return v
        g = frame.clo.glob
        if name in g:
            return self.wrap_live(g[name])
        if hasattr(builtins, name):
            return getattr(builtins, name)
        self.raise_(NameError, name)

    def ex_Attribute(self, e, frame):
        obj = self.eval(e.value, frame)
        return self.get_attr(obj, self.mangle(e.attr, frame), e)

    def ex_JoinedStr(self, e, frame):
        parts = []
        concrete = True
        for v in e.values:
            if isinstance(v, ast.Constant):
                parts.append(v.value)
            else:
                x = self.eval(v.value, frame)
                if isinstance(x, (str, int, float)) and not isinstance(x, bool) and v.conversion == -1 and v.format_spec is None:
                    parts.append(str(x))
                elif x is None or isinstance(x, bool):
                    parts.append(str(x))
                else:
                    concrete = False
        if concrete:
            return "".join(parts)
        # message text: opaque string (documented: exception message text is dropped)
        return SVal(mk_str(self.ctx.fresh("fmt", StringSort)))

    def ex_Tuple(self, e, frame):
        out = []
        for x in e.elts:
            if isinstance(x, ast.Starred):
                out.extend(self.iter_concrete(self.eval(x.value, frame)))
            else:
                out.append(self.eval(x, frame))
        return tuple(out)

    def ex_List(self, e, frame):
        out = []
        for x in e.elts:
            if isinstance(x, ast.Starred):
                out.extend(self.iter_concrete(self.eval(x.value, frame)))
            else:
                out.append(self.eval(x, frame))
        return HList(items=out)

    def ex_Set(self, e, frame):
        from . import builtins_impl
        s = HSet(elems=[])
        for x in e.elts:
            builtins_impl.set_add(self, s, self.eval(x, frame))
        return s

    def ex_Dict(self, e, frame):
        from . import builtins_impl
        d = HDict(py={})
        for k, v in zip(e.keys, e.values):
            if k is None:
                other = self.eval(v, frame)
                builtins_impl.dict_update(self, d, other, fresh_target=True)
            else:
                kk = self.eval(k, frame)
                vv = self.eval(v, frame)
                builtins_impl.setitem(self, d, kk, vv, fresh_target=True)
        return d

    def iter_concrete(self, v):
        if isinstance(v, tuple):
            return list(v)
        if isinstance(v, HList) and v.mode == "c":
            return list(v.items)
        if isinstance(v, HSet) and v.mode == "c":
            return list(v.elems)
        if isinstance(v, HDict) and v.mode == "c":
            return list(v.py.keys())
        if isinstance(v, DictView) and v.d.mode == "c":
            if v.kind == "keys":
                return list(v.d.py.keys())
            if v.kind == "values":
                return list(v.d.py.values())
            return [(k, x) for k, x in v.d.py.items()]
        if isinstance(v, (str, bytes)):
            return list(v)
        raise Unsupported("concrete iteration over %r" % (v,))

    def ex_BoolOp(self, e, frame):
        is_and = isinstance(e.op, ast.And)
        v = None
        for i, x in enumerate(e.values):
            v = self.eval(x, frame)
            if i == len(e.values) - 1:
                return v
            t = self.truthy(v)
            if is_and and not t:
                return v
            if not is_and and t:
                return v
        return v

    def ex_UnaryOp(self, e, frame):
        v = self.eval(e.operand, frame)
        if isinstance(e.op, ast.Not):
            t = self.truth_term(v)
            if isinstance(t, bool):
                return not t
            return self.from_term(mk_bool(z3.Not(t)))
        from . import ops
        return ops.unaryop(self, type(e.op).__name__, v)

    def ex_BinOp(self, e, frame):
        a = self.eval(e.left, frame)
        b = self.eval(e.right, frame)
        from . import ops
        return ops.binop(self, type(e.op).__name__, a, b)

    def ex_Compare(self, e, frame):
        from . import ops
        left = self.eval(e.left, frame)
        result = None
        for i, (op, rhs) in enumerate(zip(e.ops, e.comparators)):
            right = self.eval(rhs, frame)
            r = ops.compare(self, type(op).__name__, left, right)
            if i == len(e.ops) - 1:
                if result is None:
                    return r
                # chained: result and r
                if not self.truthy(result):
                    return result
                return r
            if result is None:
                result = r
            else:
                if not self.truthy(result):
                    return result
                result = r
            left = right
        return result

    def ex_IfExp(self, e, frame):
        if self.truthy(self.eval(e.test, frame)):
            return self.eval(e.body, frame)
        return self.eval(e.orelse, frame)

    def ex_Lambda(self, e, frame):
        defaults = tuple(self.eval(d, frame) for d in e.args.defaults)
        return Closure(e, frame.env, frame.clo.glob, frame.clo.cls_ctx, frame.clo.qualname + ".<lambda>", defaults, {})

    def ex_Subscript(self, e, frame):
        obj = self.eval(e.value, frame)
        from . import builtins_impl
        if isinstance(e.slice, ast.Slice):
            lo = self.eval(e.slice.lower, frame) if e.slice.lower is not None else None
            hi = self.eval(e.slice.upper, frame) if e.slice.upper is not None else None
            if e.slice.step is not None:
                self.unsupported("slice step", e)
            return builtins_impl.getslice(self, obj, lo, hi)
        key = self.eval(e.slice, frame)
        return builtins_impl.getitem(self, obj, key)

    def ex_Call(self, e, frame):
        # super() without arguments
        if isinstance(e.func, ast.Name) and e.func.id == "super" and not frame.env.lookup("super")[0]:
            if e.args:
                a = [self.eval(x, frame) for x in e.args]
                return SuperProxy(a[0], a[1])
            ok, selfv = frame.env.lookup(frame.clo.node.args.args[0].arg) if frame.clo.node.args.args else (False, None)
            if not ok or frame.clo.cls_ctx is None:
                self.unsupported("super() outside a method", e)
            return SuperProxy(frame.clo.cls_ctx, selfv)
        f = self.eval(e.func, frame)
        args = []
        for x in e.args:
            if isinstance(x, ast.Starred):
                args.extend(self.iter_concrete(self.eval(x.value, frame)))
            else:
                args.append(self.eval(x, frame))
        kwargs = {}
        for k in e.keywords:
            if k.arg is None:
                d = self.eval(k.value, frame)
                if isinstance(d, HDict) and d.mode == "c":
                    for kk, vv in d.py.items():
                        kwargs[kk] = vv
                elif isinstance(d, HDict) and not kwargs and len(e.keywords) == 1:
                    kwargs = d
                elif isinstance(d, SVal) and not kwargs and len(e.keywords) == 1:
                    from . import builtins_impl
                    kwargs = builtins_impl.as_hdict(self, d)
                else:
                    self.unsupported("** of a symbolic mapping mixed with other keywords", e)
            else:
                kwargs[k.arg] = self.eval(k.value, frame)
        return self.call(f, args, kwargs, e)

    def ex_ListComp(self, e, frame):
        from . import loops
        return loops.eval_comprehension(self, e, frame, "list")

    def ex_SetComp(self, e, frame):
        from . import loops
        return loops.eval_comprehension(self, e, frame, "set")

    def ex_GeneratorExp(self, e, frame):
        from . import loops
        return loops.GenExp(e, frame)

    def ex_DictComp(self, e, frame):
        from . import loops
        return loops.eval_comprehension(self, e, frame, "dict")

    def ex_Starred(self, e, frame):
        self.unsupported("starred expression", e)


class Frame:
    __slots__ = ("env", "clo", "handling")

    def __init__(self, env, clo):
        self.env = env
        self.clo = clo
        self.handling = []


def _as_load(node):
    n = ast.copy_location(type(node)(**{f: getattr(node, f) for f in node._fields}), node)
    n.ctx = ast.Load()
    return n
