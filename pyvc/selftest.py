"""Engine self-test: a tiny obligation that must be proved and a canary that must be refuted."""
from .core import z3


def run():
    x = z3.Int("x")
    s = z3.Solver()
    s.add(x > 2, z3.Not(x > 1))
    if s.check() != z3.unsat:
        return False
    s = z3.Solver()
    s.add(x > 2)
    return s.check() == z3.sat
